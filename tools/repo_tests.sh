#!/bin/bash
# Run the repository's whole test-suite offline and compare with the expected summary
# (the 52 baseline tests + the io tests that became collectable after the NumPy import fix).
cd /repo && TQDM_DISABLE=1 /venv/bin/python -m pytest -q -p no:cacheprovider --timeout=900 --continue-on-collection-errors 2>&1 | tail -1
