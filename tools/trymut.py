#!/usr/bin/env python3
"""Try a property-breaking change against some quick checks, in a scratch worktree (never in /repo:
other runs may be using it).

  tools/trymut.py [--tests] <repo file> <old> <new> <check ids...>     exactly one occurrence replaced
  tools/trymut.py [--tests] --patch <patch file> <check ids...>

The change is applied to a scratch `git worktree` of /repo's HEAD under /dev/shm, the checks run with
PHYLIB_SRC pointing at it (evidence and replay files go to the scratch directory), their verdicts and
first signatures are printed, and the worktree is removed.
"""
import os
import shutil
import subprocess
import sys
import tempfile

args = sys.argv[1:]
tests = False
if args and args[0] == '--tests':
    tests = True
    args = args[1:]
base = '/dev/shm' if os.path.isdir('/dev/shm') else tempfile.gettempdir()
d = tempfile.mkdtemp(prefix='phyverif-trymut-', dir=base)
wt = os.path.join(d, 'wt')
subprocess.run(['git', '-C', '/repo', 'worktree', 'add', '-q', '--detach', wt, 'HEAD'], check=True,
               capture_output=True)
try:
    if args[0] == '--patch':
        patch, checks = os.path.abspath(args[1]), args[2:]
        r = subprocess.run(['git', '-C', wt, 'apply', patch])
        if r.returncode:
            sys.exit('patch does not apply')
    else:
        path, old, new, checks = args[0], args[1], args[2], args[3:]
        full = os.path.join(wt, path)
        s = open(full).read()
        if s.count(old) != 1:
            sys.exit('pattern occurs %d times' % s.count(old))
        open(full, 'w').write(s.replace(old, new))
    if tests:
        r = subprocess.run('cd %s && TQDM_DISABLE=1 /venv/bin/python -m pytest -q -p no:cacheprovider '
                           '--timeout=900 --continue-on-collection-errors 2>&1 | tail -1' % wt,
                           shell=True, capture_output=True, text=True)
        print('TESTS:', r.stdout.strip())
    env = dict(os.environ, PHYLIB_SRC=wt, VERIF_NO_EVIDENCE='1', VERIF_REPLAY_DIR=os.path.join(d, 'replays'))
    for c in checks:
        r = subprocess.run(['timeout', '1500', '/verif/check', c], capture_output=True, text=True, env=env)
        lines = [l for l in r.stdout.splitlines() if l.startswith(('VIOLATION', '  signature', 'HARNESS',
                                                                   'UNREPRODUCED', 'KNOWN'))]
        print('%s exit=%d %s' % (c, r.returncode, 'DETECTED' if r.returncode == 1 else
                                 ('MISSED' if r.returncode == 0 else 'BROKEN')))
        for l in lines[:8]:
            print('   ', l)
        if r.returncode not in (0, 1):
            print(r.stdout[-1500:], r.stderr[-1500:])
finally:
    subprocess.run(['git', '-C', '/repo', 'worktree', 'remove', '--force', wt], capture_output=True)
    shutil.rmtree(d, ignore_errors=True)
