#!/usr/bin/env python3
"""Try a hand mutation: tools/trymut.py [--tests] <repo file> <old> <new> <check ids...>

Replaces `old` by `new` (exactly one occurrence) in /repo/<file>, optionally runs the repository's
tests, runs the given quick checks, prints their VIOLATION lines and always restores the file.
Or: tools/trymut.py [--tests] --patch <patch file> <check ids...>
"""
import subprocess
import sys

args = sys.argv[1:]
tests = False
if args and args[0] == '--tests':
    tests = True
    args = args[1:]
if args[0] == '--patch':
    patch, checks = args[1], args[2:]
    r = subprocess.run(['git', '-C', '/repo', 'apply', patch])
    if r.returncode:
        sys.exit('patch does not apply')
else:
    path, old, new, checks = args[0], args[1], args[2], args[3:]
    full = '/repo/' + path
    s = open(full).read()
    if s.count(old) != 1:
        sys.exit('pattern occurs %d times' % s.count(old))
    open(full, 'w').write(s.replace(old, new))
try:
    if tests:
        r = subprocess.run('cd /repo && /venv/bin/python -m pytest -q -p no:cacheprovider -x '
                           '--deselect phylib/io/tests/test_datasets.py '
                           '-q 2>&1 | tail -3', shell=True, capture_output=True, text=True)
        print('TESTS:', r.stdout.strip().splitlines()[-1] if r.stdout.strip() else r.stderr)
    for c in checks:
        r = subprocess.run(['timeout', '900', '/verif/check', c], capture_output=True, text=True)
        lines = [l for l in r.stdout.splitlines() if l.startswith(('VIOLATION', '  signature', 'HARNESS',
                                                                   'UNREPRODUCED', 'KNOWN'))]
        print('%s exit=%d %s' % (c, r.returncode, 'DETECTED' if r.returncode == 1 else
                                 ('MISSED' if r.returncode == 0 else 'BROKEN')))
        for l in lines[:8]:
            print('   ', l)
        if r.returncode not in (0, 1):
            print(r.stdout[-1500:], r.stderr[-1500:])
finally:
    subprocess.run(['git', '-C', '/repo', 'checkout', '--', '.'])
    print(subprocess.run(['git', '-C', '/repo', 'status', '--short'], capture_output=True, text=True).stdout)
