#!/bin/bash
# Every seeded patch must apply to /repo's HEAD (they are applied with `git -C /repo apply`).
bad=0
for p in /verif/seeded/*/patch.diff; do
  git -C /repo apply --check "$p" 2>/dev/null || { echo "DOES NOT APPLY: $p"; bad=1; }
done
[ $bad -eq 0 ] && echo "all $(ls /verif/seeded | wc -l) seeded patches apply to $(git -C /repo rev-parse --short HEAD)"
exit $bad
