#!/usr/bin/env python3
"""Intake of property-breaking changes written by independent sub-agents.

  tools/intake_seeded.py /tmp/seed_out [C01 C02 ...]

For every <out>/<ID>/<x>/ holding patch.diff + demo.py (+ notes.md) this confirms, in a scratch
git worktree of /repo's HEAD (outside /repo and /verif, removed afterwards):
  1. demo.py passes (exit 0) on the unmodified tree;
  2. the patch applies, the library imports and the repository's whole test-suite gives the same
     summary as on the unmodified tree;
  3. demo.py fails (exit 1) with the patch.
Confirmed changes are copied to /verif/seeded/<ID>-<x>[$INTAKE_TAG]/ with a meta.json recording what was run.
"""
import json
import os
import shutil
import subprocess
import sys
import tempfile

VERIF = os.path.dirname(os.path.dirname(os.path.abspath(__file__)))
REPO = '/repo'
PY = '/venv/bin/python'


def sh(cmd, cwd=None, timeout=900):
    p = subprocess.run(cmd, shell=True, cwd=cwd, capture_output=True, text=True, timeout=timeout,
                       env=dict(os.environ, TQDM_DISABLE='1'))
    return p.returncode, (p.stdout + p.stderr)


def tests(wt):
    rc, out = sh('%s -m pytest -q -p no:cacheprovider --timeout=900 --continue-on-collection-errors '
                 '2>&1 | tail -1' % PY, cwd=wt)
    return out.strip().split(' in ')[0]


def main():
    out_root = sys.argv[1]
    ids = sys.argv[2:] or sorted(d for d in os.listdir(out_root) if d.startswith('C'))
    base = tempfile.mkdtemp(prefix='phyverif-intake-', dir='/dev/shm' if os.path.isdir('/dev/shm') else None)
    wt = os.path.join(base, 'wt')
    subprocess.run(['git', '-C', REPO, 'worktree', 'add', '-q', '--detach', wt, 'HEAD'], check=True)
    head = subprocess.run(['git', '-C', REPO, 'rev-parse', '--short', 'HEAD'], capture_output=True,
                          text=True).stdout.strip()
    try:
        baseline = tests(wt)
        print('baseline on %s: %s' % (head, baseline))
        for pid in ids:
            for x in sorted(os.listdir(os.path.join(out_root, pid))):
                d = os.path.join(out_root, pid, x)
                patch, demo = os.path.join(d, 'patch.diff'), os.path.join(d, 'demo.py')
                if not (os.path.isdir(d) and os.path.exists(patch) and os.path.exists(demo)):
                    continue
                name = '%s-%s%s' % (pid, x, os.environ.get('INTAKE_TAG', ''))
                sh('git checkout -q -- . && git clean -qfd', cwd=wt)
                rc0, o0 = sh('%s %s' % (PY, demo), cwd=wt)
                rca, oa = sh('git apply %s' % patch, cwd=wt)
                if rca:
                    print('%-8s REJECTED: patch does not apply to %s: %s' % (name, head, oa.strip()[:200]))
                    continue
                t = tests(wt)
                rc1, o1 = sh('%s %s' % (PY, demo), cwd=wt)
                ok = rc0 == 0 and rc1 == 1 and t == baseline
                print('%-8s %s  clean-demo=%d patched-demo=%d tests=%s' % (
                    name, 'CONFIRMED' if ok else 'REJECTED', rc0, rc1, t))
                if not ok:
                    continue
                dest = os.path.join(VERIF, 'seeded', name)
                os.makedirs(dest, exist_ok=True)
                for fn in ('patch.diff', 'demo.py', 'notes.md'):
                    if os.path.exists(os.path.join(d, fn)):
                        shutil.copy(os.path.join(d, fn), os.path.join(dest, fn))
                notes = open(os.path.join(d, 'notes.md')).read() if os.path.exists(
                    os.path.join(d, 'notes.md')) else ''
                files = [l[6:].strip() for l in open(patch) if l.startswith('+++ b/')]
                meta = {
                    'property': pid, 'id': name, 'origin': 'independent sub-agent given only the property text '
                    'and a scratch worktree', 'files_changed': files,
                    'what': (notes.strip().split('\n\n')[0].replace('\n', ' ')[:400]),
                    'needs_to_manifest': 'see notes.md',
                    'confirmed_on': head,
                    'what_i_ran': {
                        'tests_unmodified': baseline, 'tests_with_patch': t,
                        'demo_unmodified': {'exit': rc0, 'last_line': o0.strip().splitlines()[-1][:300] if o0.strip() else ''},
                        'demo_with_patch': {'exit': rc1, 'last_line': o1.strip().splitlines()[-1][:300] if o1.strip() else ''},
                        'commands': ['git apply patch.diff (scratch worktree of /repo HEAD)',
                                     'python -m pytest -q -p no:cacheprovider --timeout=900 --continue-on-collection-errors',
                                     'python demo.py']},
                    'checks': [pid],
                }
                json.dump(meta, open(os.path.join(dest, 'meta.json'), 'w'), indent=1)
    finally:
        subprocess.run(['git', '-C', REPO, 'worktree', 'remove', '--force', wt], capture_output=True)
        shutil.rmtree(base, ignore_errors=True)


if __name__ == '__main__':
    main()
