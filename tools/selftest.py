#!/usr/bin/env python3
"""Detection self-test: apply every registered property-breaking change to a scratch copy of
/repo (never to /repo itself), run the quick checks that should notice it with PHYLIB_SRC pointing
at the copy, and report DETECTED / MISSED per (change, check).

  tools/selftest.py [--only ID[,ID..]] [--kind hand|seeded|all] [--tests] [-j N]

Registered changes: mutants/hand.json (string replacements) and seeded/<id>/patch.diff (patches
from independent sub-agents, see seeded/<id>/meta.json). Results are written to
mutants/RESULTS.json and mutants/RESULTS.md. Scratch copies live under /dev/shm (or $TMPDIR) and
are removed as soon as a change has been evaluated.
"""
import argparse
import concurrent.futures as cf
import json
import os
import shutil
import subprocess
import sys
import tempfile
import time

VERIF = os.path.dirname(os.path.dirname(os.path.abspath(__file__)))
REPO = '/repo'


def scratch_copy():
    base = '/dev/shm' if os.path.isdir('/dev/shm') else tempfile.gettempdir()
    d = tempfile.mkdtemp(prefix='phyverif-selftest-', dir=base)
    subprocess.run(['git', '-C', REPO, 'worktree', 'add', '-q', '--detach', os.path.join(d, 'wt'), 'HEAD'],
                   check=True, capture_output=True)
    return d, os.path.join(d, 'wt')


def drop_copy(d):
    subprocess.run(['git', '-C', REPO, 'worktree', 'remove', '--force', os.path.join(d, 'wt')],
                   capture_output=True)
    shutil.rmtree(d, ignore_errors=True)


def apply_change(wt, ch):
    if ch['kind'] == 'hand' and 'patch' not in ch:
        path = os.path.join(wt, ch['file'])
        s = open(path).read()
        if s.count(ch['old']) != 1:
            return 'pattern occurs %d times' % s.count(ch['old'])
        open(path, 'w').write(s.replace(ch['old'], ch['new']))
        return None
    patch = ch['patch'] if os.path.isabs(ch['patch']) else os.path.join(VERIF, ch['patch'])
    p = subprocess.run(['git', '-C', wt, 'apply', patch], capture_output=True, text=True)
    return p.stderr.strip() or None if p.returncode else None


def run_tests(wt):
    p = subprocess.run('cd %s && TQDM_DISABLE=1 /venv/bin/python -m pytest -q -p no:cacheprovider '
                       '--timeout=900 --continue-on-collection-errors 2>&1 | tail -1' % wt,
                       shell=True, capture_output=True, text=True)
    return p.stdout.strip()


def evaluate(ch, tests, jobs):
    d, wt = scratch_copy()
    out = {'id': ch['id'], 'kind': ch['kind'], 'property': ch.get('property'), 'what': ch.get('what', ''),
           'checks': {}}
    try:
        err = apply_change(wt, ch)
        if err:
            out['error'] = err
            return out
        if tests:
            out['tests'] = run_tests(wt)
        env = dict(os.environ, PHYLIB_SRC=wt, VERIF_JOBS=str(jobs),
                   VERIF_REPLAY_DIR=os.path.join(d, 'replays'))   # concurrent runs must not share replay files
        for c in ch['checks']:
            t0 = time.time()
            p = subprocess.run(['timeout', '1500', os.path.join(VERIF, 'check'), c, '--tier', 'quick'],
                               env=dict(env, VERIF_NO_EVIDENCE='1'), capture_output=True, text=True)
            sigs = [l.strip().split('signature=')[1].split(' ')[0] for l in p.stdout.splitlines()
                    if l.strip().startswith('signature=')]
            verdict = {0: 'MISSED', 1: 'DETECTED'}.get(p.returncode, 'BROKEN(%d)' % p.returncode)
            out['checks'][c] = {'verdict': verdict, 'signatures': sigs[:4], 'wall_s': round(time.time() - t0, 1)}
            if verdict.startswith('BROKEN'):
                out['checks'][c]['output'] = (p.stdout + p.stderr)[-600:]
    finally:
        drop_copy(d)
    return out


def load_changes(kind):
    changes = []
    if kind in ('hand', 'all'):
        path = os.path.join(VERIF, 'mutants', 'hand.json')
        if os.path.exists(path):
            for m in json.load(open(path)):
                m['kind'] = 'hand'
                changes.append(m)
    if kind in ('seeded', 'all'):
        sd = os.path.join(VERIF, 'seeded')
        if os.path.isdir(sd):
            for name in sorted(os.listdir(sd)):
                meta = os.path.join(sd, name, 'meta.json')
                if os.path.exists(meta):
                    m = json.load(open(meta))
                    changes.append({'id': name, 'kind': 'seeded', 'property': m['property'],
                                    'what': m.get('what', ''), 'patch': os.path.join(sd, name, 'patch.diff'),
                                    'checks': m.get('checks', [m['property']])})
    return changes


def main():
    ap = argparse.ArgumentParser()
    ap.add_argument('--only')
    ap.add_argument('--kind', default='all')
    ap.add_argument('--tests', action='store_true')
    ap.add_argument('-j', type=int, default=4)
    a = ap.parse_args()
    changes = load_changes(a.kind)
    if a.only:
        keep = set(a.only.split(','))
        changes = [c for c in changes if c['id'] in keep or c.get('property') in keep]
    jobs = max(2, 16 // a.j)
    results = []
    with cf.ThreadPoolExecutor(a.j) as ex:
        for r in ex.map(lambda c: evaluate(c, a.tests, jobs), changes):
            results.append(r)
            line = ' '.join('%s=%s' % (k, v['verdict']) for k, v in r['checks'].items())
            print('%-28s %-5s %s %s' % (r['id'], r.get('property') or '', line, r.get('error', '')), flush=True)
    os.makedirs(os.path.join(VERIF, 'mutants'), exist_ok=True)
    prev = {}
    rj = os.path.join(VERIF, 'mutants', 'RESULTS.json')
    if os.path.exists(rj):
        prev = {r['id']: r for r in json.load(open(rj))}
    for r in results:
        prev[r['id']] = r
    allr = [prev[k] for k in sorted(prev)]
    json.dump(allr, open(rj, 'w'), indent=1)
    with open(os.path.join(VERIF, 'mutants', 'RESULTS.md'), 'w') as f:
        f.write('# Detection matrix (quick tier, written by tools/selftest.py)\n\n')
        f.write('| change | kind | property | what it does | check: verdict (first signature) |\n')
        f.write('|---|---|---|---|---|\n')
        for r in allr:
            cells = '; '.join('%s: %s%s' % (k, v['verdict'], (' (`%s`)' % v['signatures'][0])
                                            if v['signatures'] else '') for k, v in r['checks'].items())
            f.write('| %s | %s | %s | %s | %s |\n' % (r['id'], r['kind'], r.get('property') or '',
                                                     (r.get('what') or '').replace('|', '/'),
                                                     cells or r.get('error', '')))
    missed = [r['id'] for r in results if any(v['verdict'] != 'DETECTED' for v in r['checks'].values())
              or r.get('error')]
    print('evaluated %d changes; not detected everywhere: %s' % (len(results), missed or 'none'))


if __name__ == '__main__':
    main()
