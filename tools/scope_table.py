#!/usr/bin/env python3
"""Print the 'as-built scopes' table of DESIGN.md section 14 from evidence/*.json."""
import json
import os

VERIF = os.path.dirname(os.path.dirname(os.path.abspath(__file__)))
MODE = {'C02': 'bfs', 'C08': 'bfs', 'C10': 'bfs + env', 'C17': 'space x env', 'C19': 'bfs (fixpoint) + TLC',
        'C20': 'env + TLC'}
print('| id | mode | sweeps (cases) | states | transitions | non-trivial | wall |')
print('|----|------|----------------|-------:|------------:|------------:|-----:|')
for i in range(1, 21):
    pid = 'C%02d' % i
    e = json.load(open(os.path.join(VERIF, 'evidence', pid + '.json')))
    cov = e.get('coverage', e)
    sweeps = cov.get('sweeps', {})
    sw = ', '.join('%s (%s)' % (k, v.get('cases')) for k, v in sweeps.items())
    wall = max([v.get('wall_s', 0) for v in sweeps.values()] or [0])
    print('| %s | %s | %s | %s | %s | %s | %.0f s |' % (
        pid, MODE.get(pid, 'space'), sw, cov.get('states'), cov.get('transitions'),
        cov.get('distinct_nontrivial'), wall))
