#!/usr/bin/env python3
"""Regenerate /verif/MANIFEST.json from the table below (run: python3 tools/gen_manifest.py)."""
import json
import os

VERIF = os.path.dirname(os.path.dirname(os.path.abspath(__file__)))

# id -> (technique, level text, level note, design ref)
CHECKS = {
    'C18': (
        'exhaustive enumeration of a finite value/key/cell alphabet (space mode): every dictionary, '
        'table and parameter file is written and read back by the real code and compared with the '
        'promised value',
        'Bounded exhaustive exploration: every JSON dictionary (16 dtypes x 8 shapes x 5 layouts, all '
        'plain values x 10 keys, all 2-key combinations), every 1-2 row table over the cell alphabet '
        '(3 rows thorough), every two-column table of <= 3 ids and every 1-2 entry parameter file is '
        'round-tripped through phylib and compared type-strictly. Unit tests pin four dictionaries; '
        'the defects found (negative keys, backslashes in params.py, small complex arrays) needed '
        'values no test contains.',
        'Trusts the stdlib json/csv parsers and NumPy equality; values outside the alphabets '
        '(arbitrary unicode, huge arrays) are not covered.',
        'DESIGN.md section 6 C18'),
}

CHECKS['C15'] = (
    'exhaustive enumeration of all labelled spike trains up to a length bound on a small time grid '
    '(space mode) against a double-loop pair counter',
    'Bounded exhaustive exploration: every non-decreasing spike train of length <= 5 (7 thorough) on a '
    '6-sample (7) grid x every 2-cluster labelling, every train of length <= 3 (5) x every 3-(4-)cluster '
    'labelling, and an enumerated periodic long family, each x 6 (bin, half-window) points x cluster-id '
    'lists (None, every order, with an id without spikes) x symmetrize on/off x 4 exact sample rates, '
    'compared entry by entry with a double loop over pairs; firing_rate against the outer product. '
    'The suite pins two trains.',
    'Sample rates are powers of two so that time*rate is exact; cluster-id lists contain every present '
    'id (documented precondition); long trains only from the periodic family.',
    'DESIGN.md section 6 C15')
CHECKS['C16'] = (
    'exhaustive enumeration of all (length, chunk, overlap), (length, n_excerpts, size), file-size lists '
    'x chunk lengths and compressed-reader configurations up to bounds (space mode) with tiling '
    'invariants checked on every one',
    'Bounded exhaustive exploration: chunk_bounds for every n <= 120 (300), chunk <= 24 (40), overlap < '
    'chunk; excerpts/get_excerpts for every n, n_excerpts <= 6, size <= 6; _get_chunk_bounds and real '
    'FlatEphysReader objects on real files for every list of 1-3 file sizes <= 8 (10) and 4 sizes <= 4 (5) x chunk length <= 10 '
    '(12); real .cbin readers for n <= 10 (14) x chunk x threads x cache. Invariants: kept parts concatenate '
    'to the data, bounds strictly increase 0..n, contain file boundaries, gaps <= chunk, iterator '
    'intervals tile the recording.',
    'mtscomp creates the compressed inputs and is trusted; lengths beyond the bounds are not covered.',
    'DESIGN.md section 6 C16')

CHECKS['C01'] = (
    'exhaustive enumeration of recording layouts x index expressions (space mode) on real readers over '
    'real files, differential against NumPy indexing of the ground-truth array',
    'Bounded exhaustive exploration: every composition of n <= 6 (8) samples into flat files x dtypes x '
    'channel counts x header offsets, plus npy / in-memory / compressed (.cbin by path and by reader) '
    'layouts; on each, every integer in [-n, n) in three integer types, every unit-step slice with '
    'bounds in [-n, n] or None selecting >= 1 row, every strictly increasing index list in three '
    'container types, each alone and with 7 column selectors given eagerly and lazily (about 2.1e6 '
    'index expressions in the quick tier) compared in value, shape and dtype. The suite pins a dozen '
    'expressions on one two-file layout; the defect found (array rows + column selector) is outside it.',
    'NumPy indexing of the generator\'s array is the reference; lengths above the bound and '
    'multi-file npy/cbin (documented as unsupported) are not covered.',
    'DESIGN.md section 6 C01')
CHECKS['C02'] = (
    'explicit-state exploration over programs and derivation trees (bfs mode): all operator strings to '
    'a depth bound and all parent/child/sibling derivation histories, every live reader re-read after '
    'every event and compared with the eager NumPy expression',
    'Bounded exhaustive exploration: every program of depth <= 2 (3 thorough) over the 53-operation '
    'alphabet (2 unary, 12 binary x 4 scalars, 3 column selections) on 16 roots (flat in two files, '
    'array, npy, cbin x int16/float32/float64/uint8), each indexed 14 ways; and every derivation tree '
    'with <= 3 (4) derivations over 9 operations where after each derivation every live node (root, '
    'parent, siblings, new node) is re-read against its own eager expression, so shared deferred-op '
    'state is seen at the step where it appears. States are deduplicated by (multiset of expressions, '
    'aliasing pattern of the op lists).',
    'Float results compared to 4 ULP (NumPy SIMD vs scalar loops), dtype/NaN/inf exactly; no claim '
    'where the eager expression on the whole array raises; Python scalars only.',
    'DESIGN.md section 6 C02')

CHECKS['C03'] = (
    'exhaustive enumeration of recordings x spike positions x window lengths x channel selectors x '
    'chunk grids x spike vectors x store queries (space mode, three complete sub-products) against the '
    'zero-padded window of the ground-truth array',
    'Bounded exhaustive exploration in three sweeps. A: every spike sample of recordings of 1-7 samples '
    'x 5 integer sample types x window lengths 1-6 and 2n+1 x 4 channel selectors as list and ndarray, '
    'direct extraction on array and two-file readers. B: recordings of 5-7 samples in every '
    'composition into <= 3 files x every chunk size 1..n+1, and compressed readers (chunk x threads x '
    'cache): every sorted spike vector of length <= 3 (4) in int64/uint64 exported chunk by chunk, '
    'loaded with np.load, then used as a subset store queried with every permutation of stored '
    'spikes and every ordered subset of the stored channels. C: declared dtype vs bytes for 3 sample '
    'dtypes x 6 factor types. D (with the dataset generator): TemplateModel routes. Five defects '
    'found this way were repaired (see known_findings.json).',
    'Store queries are restricted to channels stored for every queried spike; np.load is the '
    'independent reader; recordings longer than 8 samples are not covered.',
    'DESIGN.md section 6 C03')

CHECKS['C19'] = (
    'explicit-state breadth-first search to a fixpoint over the product of the real object and a '
    'reference model (bfs mode); TLC model checking of tla/Progress.tla with every node of its '
    'history tree replayed on the real ProgressReporter',
    'Exhaustive within a finite alphabet, to a fixpoint: 19a explores all 37 051 reachable product '
    'states of a real EventEmitter (2 events, 3 sender filters, 3 callbacks one of them last=True, 3 '
    'connect styles, unconnect by callback/sender, reset, silent() nested to depth 2, set_silent, '
    'emits with 3 senders incl. None, with/without single; registration list <= 3) and checks on each '
    'of ~7.8e5 transitions the exact call sequence, arguments, sender identity and return value '
    'against a list reference. 19b explores the product of a real ProgressReporter with the `armed` '
    'reference for values/maxima 0..3 (0..4) to a fixpoint, so histories of every length over that '
    'range are covered, and replays all 12 537 nodes of the TLC-enumerated history tree (N=2, depth 4; '
    'depth 5 thorough) of tla/Progress.tla, whose invariants TLC checks; printed completion messages are counted per operation. A third sweep drives '
    'the module-level functions (one global emitter) through every history of length <= 4 (5) over 8 events. '
    'The suite has five event tests.',
    'set_silent only outside silent(); resets leaving a zero maximum excluded (statement silent); value '
    'returned by emit while silenced not compared; TLC trusted for the model side.',
    'DESIGN.md section 6 C19')
CHECKS['C20'] = (
    'stateless exploration of every schedule of server answers of the real download_file under an '
    'in-process HTTP mock (env mode), plus TLC model checking of tla/Download.tla with every terminal '
    'model path replayed against the implementation',
    'Exhaustive enumeration of environment answers: every request the code actually makes is a choice '
    'point (data URL: good/corrupt/404; checksum URL: constant correct/wrong/missing, or chosen per '
    'request), for each prior file state (absent/valid/corrupt): 41 constant-mode and 151 per-request '
    'schedules, each checked against the clauses of the statement. TLC checks five invariants on '
    'tla/Download.tla (nondeterministic where the statement is silent); each of its terminal paths '
    'is driven against the real code and the observed (answers consumed, outcome, GET count) must be '
    'a model path, and conversely every explored schedule must be one. Replay determinism is asserted (a '
    'divergence is reported as behaviour depending on earlier calls). Further sweeps: large / empty bodies, '
    'the download_test_file wrapper from a fresh configuration directory, target paths of 56 / 60 '
    'characters, and 140 (300) downloads in one process without resetting the global event system.',
    'responses.RequestsMock is the trusted mock; HEAD answers constant; nothing claimed about the file '
    'after an exception.',
    'DESIGN.md section 6 C20')

CHECKS['C07'] = (
    'exhaustive enumeration of cluster-assignment vectors x dtypes x spike-id vectors x requested '
    'cluster tuples x lookup permutations (space mode) against set-theoretic definitions',
    'Bounded exhaustive exploration: every vector of length 0..6 (8) over the gapped alphabet {0,2,5} '
    'in int32/int64/uint16/uint32, with and without a gapped spike-id vector; on each: grouping, '
    'flatten, unique, every requested-cluster tuple of length <= 3 over {0,2,5,7} as list and array, '
    'every permutation of the present ids (+ an absent one) as lookup, 1-D and 2-D grouped means; an '
    'enumerated periodic long family (length 67/131) where an unstable sort is observable; and a '
    'many-ids family (200..40000 distinct ids, permuted lookups) where narrow index types overflow. '
    'The TemplateModel query methods are covered with the dataset generator.',
    'Ids are non-negative (documented precondition); long inputs only from the enumerated families.',
    'DESIGN.md section 6 C07')
CHECKS['C17'] = (
    'exhaustive enumeration of selector configurations x calls (space mode) with stateless '
    'exploration of every np.random.choice outcome (env mode: every k-subset is an alternative)',
    'Bounded exhaustive exploration: every non-decreasing spike-time vector of <= 4 (5) spikes on a '
    '5-(6-)point grid x every labelling over two clusters x every chunk grid of 2..5 bounds on the '
    'same grid x kept-chunk counts 1..4 x requested counts {None,0,1,2,10} x cluster lists {[],[0],'
    '[1,0],[0,7]} x chunk restriction x subset; np.random.choice is patched to a choice oracle and '
    'every schedule of draws is run (6.5e6 executions quick). Each result is checked for strict '
    'increase, membership in requested clusters / kept chunks / subset, exact per-cluster counts, and '
    'chunks_kept against the stride rule.',
    'np.random.choice is the only randomness; time types int64/float64/uint64.',
    'DESIGN.md section 6 C17')

CHECKS['C04'] = (
    'deviation-bounded exhaustive enumeration of dataset layouts (space mode): default + every '
    'configuration within k deviations over 26 option axes, each generated on disk, loaded with the '
    'real load_model and compared with the generator\'s ground truth',
    'Bounded exhaustive exploration: a dataset generator with independent ground truth writes every '
    'configuration at Hamming distance <= 3 (4 thorough) from the default over 26 axes (KS/ALF names, '
    '(n,)/(n,1) vectors, presence of each optional file, dense/sparse templates, id/time dtypes, raw '
    'file layout, channel map, spike attributes, NaN/inf content, non-monotonic times, sample rate): '
    '26 755 datasets quick (+ one-channel probes, and histories that rewrite a dataset in place and load it '
    'again in the same process). Every public attribute is compared value-by-value, defaults included, the '
    'directory is hashed before and after, and a reload after derived files were created is compared '
    'too. A failure is attributed to the smallest sub-configuration showing it.',
    '>= 2 spikes/templates/channels per dataset; memory-mapped arrays exempt at NaN positions; values '
    'from seeded patterns, not arbitrary reals.',
    'DESIGN.md section 6 C04')

CHECKS['C05'] = (
    'exhaustive enumeration of per-channel amplitude profiles x geometries x whitening x neighbourhood '
    'x threshold x unwhiten x explicit lists, and of sparse column-table rows (space mode), every '
    'returned record checked clause by clause against the stored arrays',
    'Bounded exhaustive exploration: templates carrying every permutation of distinct amplitude levels '
    'over 4 channels (24) and 6 channels (all 720, single- and two-shank), a rotating '
    'family on a 14-channel probe, plus tie profiles; x whitening absent/identity/mixing x '
    'n_closest_channels 12/2/3 x threshold None/0/0.5/1 x unwhiten x explicit channel lists (3.5e5 '
    'get_template calls); sparse storage: every ordered row of 3 stored columns over 5 channels '
    'with 0-2 entries -1 (some holding garbage) and an optional all-zero column. Clauses: distinct '
    'channels, peak first, non-increasing amplitude, column j == template on channel j, amplitude j == '
    'ptp of column j, exact channel set; accessors agree with the record.',
    'No distance tie at the neighbourhood cut-off and no amplitude within 1e-4 of the threshold (else '
    'the exact-set clause is dropped); unwhitened values compared with rtol 1e-5.',
    'DESIGN.md section 6 C05')
CHECKS['C06'] = (
    'exhaustive enumeration of (data, column table, requested channels) triples and of ordered spike / '
    'channel requests against generated feature stores (space mode); eigh-based PCA reference for '
    'waveform-derived features',
    'Bounded exhaustive exploration: from_sparse over every column table of 0-2 spikes x 1-3 stored '
    'columns over {0,1,2,-1} x every repetition-free request of length 0..3 over {0,1,2,5} x trailing '
    'dims x dtypes; get_features / get_template_features on 18 generated stores (all spikes / row '
    'table / no column table, int32/uint32 ids) with every ordered subset of <= 3 of 6 spikes x every '
    'ordered subset of <= 3 channels incl. an unknown one (1.05e5 queries quick); waveform-derived '
    'features for every subset of 4-7 stored spikes against an independent eigh PCA, one sign per '
    'component.',
    'No repeated channel in a stored row; unstored spikes unconstrained; PCA cases with eigengap < 1e-6 '
    'are counted as trivial and skipped.',
    'DESIGN.md section 6 C06')

CHECKS['C08'] = (
    'explicit-state breadth-first search over curation histories (bfs mode), canonical state = the '
    'spike_clusters vector; every reached vector is saved into a generated dataset, loaded with the '
    'real code and compared with the provenance / weighted-mean definitions',
    'Bounded exhaustive exploration: from spike_clusters = spike_templates on 6-spike, 3-template dense '
    'datasets (rotating surjective assignments plus the family whose highest template is unused, on a '
    '4-channel and a 14-channel probe, identity / mixing whitening) every merge(c1,c2), split(c,k) and '
    'reassign(spike,c) history of depth <= 2 (3 thorough) is explored (5 214 distinct vectors quick); '
    'after each event the model is reloaded and merge_map, nan_idx, n_clusters, every row of '
    'sparse_clusters.data (single origin: the template; several: spike-count-weighted mean of the '
    'channel-restricted origins on the dominant template\'s channels) and get_cluster_mean_waveforms '
    'are compared with independent formulas.',
    'Ties in spike counts accept either dominant template; values outside the dominant channels are not '
    'compared; dense templates only.',
    'DESIGN.md section 6 C08')
CHECKS['C09'] = (
    'exhaustive enumeration of dataset configurations (space mode): unused-template position x curation '
    'x whitening x feature store x sample rate x unit factor, every summary recomputed with the direct '
    'formula from the generator\'s arrays',
    'Bounded exhaustive exploration over 384 (240 quick) generated dense datasets: template without '
    'spikes at none/first/middle/last position, clusters equal to templates or merged / split / '
    'reassigned, whitening identity/mixing/absent, features absent / without column table / sparse / '
    'row-subset, sample rate 100/30000, unit factors 1 and 2.5; get_amplitudes_true (spike amplitudes, '
    'NaN-aware per-id means, peak of the rescaled waveforms), templates_/clusters_amplitudes, peak '
    'channels, peak-to-trough durations and get_depths against independent formulas.',
    'Cluster waveforms are read from the model (validated by C08); everything else comes from the '
    'generator; float tolerance rtol 1e-5.',
    'DESIGN.md section 6 C09')

CHECKS['C11'] = (
    'exhaustive enumeration of probe tuples (space mode): every k-tuple over a family of generated '
    'probe directories, merged by the real Merger and compared with an independent stable merge',
    'Bounded exhaustive exploration: every 1- to 4-tuple (5 thorough, on a reduced family) over 6-7 probe records '
    '(2-3 spikes on times {0,1,2} with ties inside and across probes, gapped template ids, curated '
    'clusters with higher maxima, per-cluster TSVs in all/some/none) x id dtypes int32/uint32/int64, '
    'plus a long-tie family (2 x 40 spikes on <= 3 times) where an unstable sort is observable. '
    'Output files are read with np.load: times, amplitudes (spike identity, hence conservation and '
    'tie order), constant per-probe id offsets with disjoint ranges, cluster_probes, renumbered TSVs, '
    'the returned model, and SHA-1 of every input file.',
    'One id dtype per merge; complete KiloSort directories; amplitudes distinct per spike.',
    'DESIGN.md section 6 C11')
CHECKS['C12'] = (
    'exhaustive enumeration of probe tuples (space mode) over a family with different channel / '
    'template counts, maps, geometries, index dtypes and optional matrices; block-by-block comparison '
    'of the merged files with the inputs',
    'Bounded exhaustive exploration: every 1- to 4-tuple (5 thorough, on a reduced family) over 7 probe kinds (2-4 '
    'channels, 2-3 templates, identity / permuted / sub-selected maps, two-column and single-column '
    'geometries, int32 / uint32 index tables, matrices present or absent, a probe whose highest '
    'template is unused): channel blocks and probe labels, x-translation with disjoint x-ranges, '
    'template waveform on its own channel block at the id offset and zeros elsewhere, shifted index '
    'tables, block-diagonal whitening / inverse / similarity, merged parameters, loadability. One '
    'defect class is a recorded known finding (single-column probes are not kept apart).',
    '>= 2 templates and channels per probe; index tables of equal width in all probes; matrices '
    'compared only when present in all probes.',
    'DESIGN.md section 6 C12')

CHECKS['C13'] = (
    'deviation-bounded exhaustive enumeration of source datasets x label x unit factor (space mode): '
    'each generated on disk, converted by the real EphysAlfCreator, the output listed and loaded back',
    'Bounded exhaustive exploration: every configuration within 3 deviations (2 687 conversions; 6 '
    'deviations = 199 321 in the thorough tier) of the default over 19 axes (raw data and its format incl. a '
    'compressed recording of several decompression batches, feature store kind, curation kind incl. the '
    'no-emptied-id case, probe table, KSLabel, temp_wh.dat, (n,1) vectors, unused top template, whitening, '
    'channel map, second conversion by one creator, > 12 channels, label, unit factor, linked source files, '
    'odd window length, mm geometry + fractional rate, a spike after the end of the recording). Checked: first dimension of every spikes./clusters./'
    'templates./channels. file, label placement, times and samples, uuid uniqueness and count, the '
    'returned model and a fresh load of the output against the source, refusal to convert into the '
    'source directory, and SHA-1 of every source file before/after.',
    'uuid4 not owned (only uniqueness/count observed); <= 8 spikes so the subset selector never draws; '
    'ids below 65536.',
    'DESIGN.md section 6 C13')
CHECKS['C14'] = (
    'exhaustive enumeration of source configurations and of merged probe tuples (space mode); every '
    'exported value recomputed from the source directory\'s own .npy files',
    'Bounded exhaustive exploration: single-probe sources over curation x feature store x whitening x '
    'unit factor x unused top template x one/two probe labels x sample rate, and sources merged by the '
    'real Merger from every 1-, 2- and 3-tuple over 4-5 probe kinds with permuted / sub-selected '
    'channel maps. Checked per template and per cluster: rescaled unwhitened waveform on the listed '
    'channels, listed channels = nearest same-probe channels peak first, spike / template / cluster '
    'amplitudes with the unit factor, cluster depths and peak-to-trough (NaN for empty ids), spike '
    'depths (feature-weighted or cluster depth), and channels.rawInd against each probe\'s original map.',
    '"nearest" accepted under L1 or Euclidean distance, ties in any order; cluster waveforms read from '
    'the model (validated by C08); merged geometries keep probes apart.',
    'DESIGN.md section 6 C14')

CHECKS['C10'] = (
    'explicit-state breadth-first search over save/reload histories (bfs mode) with the selector draw '
    'scripted (env seam); canonical state = (directory digest, live-model descriptor); a fresh '
    'load_model after every event is compared with a dictionary reference model',
    'Bounded exhaustive exploration: from two generated datasets (with / without raw data) every '
    'history of depth <= 3 (4 thorough) over 27 (39) events - save_spike_clusters(merge / split / '
    'identity), save_metadata(2 fields x 4 mappings incl. None entries, floats, strings with spaces, '
    'empty), foreign TSV/CSV files (valid, empty, ragged, invalid UTF-8; + header-only, no cluster_id '
    'column), save_spikes_subset_waveforms under both scripted draws, close, reload - is replayed on '
    'a fresh directory (5 064 canonical states, 15 117 transitions quick). After every event a fresh '
    'load must show the last saved clusters, the last saved mapping of every field with types '
    'preserved, the fields of valid foreign files, unchanged templates and samples, subset-store '
    'waveforms equal to the raw window, and must never fail because of a malformed file.',
    'Foreign files use field names of their own; methods of a closed model are not called except '
    'reload; the selector draw is scripted rather than fully enumerated here (C17 enumerates it).',
    'DESIGN.md section 6 C10')

NOT_YET = {}

ALL = ['C%02d' % i for i in range(1, 21)]


def main():
    checks = []
    for pid in ALL:
        if pid not in CHECKS:
            continue
        tech, text, note, ref = CHECKS[pid]
        checks.append({
            'property_id': pid,
            'quick_cmd': './check %s --tier quick' % pid,
            'thorough_cmd': './check %s --tier thorough' % pid,
            'evidence_file': 'evidence/%s.json' % pid,
            'replay_cmd_template': './check %s --replay {path}' % pid,
            'engine': 'pymc',
            'level_claimed': {'category': 'model_checking', 'text': text, 'design_ref': ref},
            'level_note': note,
            'technique': tech,
        })
    na = [{'property_id': pid, 'reason': NOT_YET.get(pid, 'check not built yet (work in progress; see DESIGN.md section 10)')}
          for pid in ALL if pid not in CHECKS]
    manifest = {
        'version': 1,
        'setup_cmd': './setup.sh',
        'hooks': {
            'guard': 'PHYLIB_VERIF',
            'enable': 'no source hooks are needed: every seam (random choice, uuid, HTTP, directory '
                      'order, output) is owned by patching module attributes from the harness; '
                      './check exports PHYLIB_VERIF=1 for uniformity',
            'baseline_off_cmd': 'cd /repo && /venv/bin/python -m pytest -ra -q -p no:cacheprovider '
                                '--timeout=900 --continue-on-collection-errors',
            'source_commits': [],
            'add_only': True,
        },
        'engines': [
            {'name': 'pymc', 'path': 'mc/', 'serves_properties': [c['property_id'] for c in checks],
             'kind_free_text': 'home-grown explicit-state / stateless explorer for Python (space, bfs '
                               'and env modes) running the real phylib code against reference models; '
                               'TLC for the two TLA+ protocol models whose every path is replayed'},
        ],
        'checks': checks,
        'not_applicable': na,
        'notes': 'All checks import phylib from /repo (or $PHYLIB_SRC) at run time; nothing is built. '
                 'VERIF_SEED selects the numeric fill / rotating slices; VERIF_JOBS the worker count.',
    }
    with open(os.path.join(VERIF, 'MANIFEST.json'), 'w') as f:
        json.dump(manifest, f, indent=1)
    print('wrote MANIFEST.json: %d checks, %d not_applicable' % (len(checks), len(na)))


if __name__ == '__main__':
    main()
