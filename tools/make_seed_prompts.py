#!/usr/bin/env python3
"""Prepare a round of independent seeded changes: one scratch worktree of /repo and one prompt per
property. The prompt contains the property text and the list of changes proposed in earlier rounds
(what they change, never what the checks detect); nothing from /verif's machinery.

  tools/make_seed_prompts.py <round> [IDs...]     ->  /tmp/seed<round>_wt/<ID>, /tmp/seed<round>_out/<ID>/PROMPT.txt

Afterwards: launch one fresh sub-agent per property ("Read <out>/<ID>/PROMPT.txt and follow it"),
at most 10 at a time; then remove the worktrees and run
  INTAKE_TAG=<round> tools/intake_seeded.py /tmp/seed<round>_out <IDs>
"""
import json
import os
import re
import subprocess
import sys

VERIF = os.path.dirname(os.path.dirname(os.path.abspath(__file__)))

TEMPLATE = """You are helping to evaluate a verification harness for the Python library `phylib` (spike-sorting data I/O). Your job: craft TWO independent, realistic, subtle BUG-INJECTING source changes that each break ONE stated property of the library while the library still imports and its existing test-suite still passes.

Your private workspace is a git worktree of the library at: {wt}   (work ONLY there)
Write your results ONLY under: {out}/
Do NOT read, list or modify anything under /verif or /repo (they are off limits; your work must be independent of them). No network is available.

The property (read it carefully; it is all you get) is in {out}/PROPERTY.txt and repeated here:

{prop}


IMPORTANT - other people already proposed the following changes for this property. Yours must be DIFFERENT from ALL of them in location (another function or another statement) and in mechanism; do not produce variants of these:
{earlier}
Look for parts of the stated behaviour (and of its quantifier) that none of the above touches. {emphasis}

How to run things (Python with all dependencies is /venv/bin/python; always run from inside the worktree so that `phylib` is imported from it):
  cd {wt} && TQDM_DISABLE=1 /venv/bin/python -m pytest -q -p no:cacheprovider --timeout=900 --continue-on-collection-errors 2>&1 | tail -5
On the unmodified worktree this gives about "3 failed, 203 passed, 39 errors" (the failures/errors need the network and are expected). FIRST record this baseline (save the list of passing test ids, e.g. with `-rA` or `--junitxml`). After each of your changes exactly the same tests must still pass (the failing/erroring ones may stay as they are).

What each change must be:
- an edit of library source under phylib/ (NOT of tests), small (1-10 lines), looking like a plausible slip or "simplification" a developer could make: off-by-one / wrong comparison / dropped branch / wrong offset or index / state shared or not reset / wrong order of two steps / stale value reused, etc.;
- it must violate the property above for SOME input / configuration / history that the property covers (stay inside what the statement actually promises: if the statement is silent about a situation, a change that only alters that situation does not count);
- it must need something specific to manifest - a boundary value, an unusual but legal input, a multi-step sequence, a particular combination of options, >= 3 of something, two code sites that each look fine alone - and must NOT be exposed by ordinary simple use (otherwise the existing tests would catch it);
- the two changes (a and b) must be of different kinds and in different functions if possible.

For each change X in {{a, b}} produce, in {out}/X/ :
  patch.diff  - output of `git diff` in the worktree (must apply with `git apply` to a clean checkout of the same commit);
  demo.py     - a standalone script, run as `cd {wt} && /venv/bin/python {out}/X/demo.py`. It must start with `import os, sys; sys.path.insert(0, os.getcwd())`, build whatever small input it needs (temporary files under tempfile.mkdtemp(), synthetic arrays; no network), exercise the PUBLIC behaviour named by the property, and: print "PASS" and exit 0 on the unmodified library; print "FAIL: <what was wrong>" and exit 1 with your change applied. Keep it short and deterministic;
  notes.md    - 5-15 lines: what the change is, which clause of the property it breaks, exactly what is needed for it to manifest, and the commands you ran with their results (test-suite summary line with the change applied; demo output with and without the change).
Never use `git stash` (the stash is shared with other people's worktrees of the same repository); save your diff to a file and use `git checkout -- .` / `git apply` instead. After saving each patch, restore the worktree (`git checkout -- .`) and make sure demo.py prints PASS again, so that a and b are independent patches against the same clean commit. Leave the worktree clean at the end.

Verify everything yourself before finishing: (1) baseline tests recorded; (2) with patch a applied: same tests pass, demo a FAILs; without: PASS; (3) same for b. If a candidate change makes an existing test fail, discard it and find another. Finish with a 5-line summary (what a and b are). Do not write anything outside {out}/ and the worktree.
"""

EMPHASIS = {
    'default': ('Prefer: (1) a change that only shows after a multi-step sequence / history, on a second call, or on '
                'a second object created in the same process; (2) two small edits at different sites that each look '
                'harmless alone; (3) a change that depends on an unusual but legal dtype, size relation, boundary '
                'value or option combination named in the property\'s quantifier; (4) a change in a helper that the '
                'anchored code calls (same package) rather than in the obvious function; (5) a change that only '
                'corrupts a secondary output (a returned attribute, a second file) while the main result stays right.'),
    '5': ('Prefer, this time: (1) a change whose effect depends on the VALUES in the data (ties, equal amplitudes, '
          'negative numbers, values near the limits of the dtype, NaN in one place, a zero-length or length-one '
          'dimension), not on the call sequence; (2) a change that is only visible at a larger SIZE than a toy example '
          '(more than 12 or 20 or 256 or 50000 of something, a second batch, a wrapped counter); (3) a change in how '
          'ARGUMENTS are normalised (list vs array vs tuple vs scalar, 0-d arrays, Python int vs NumPy integer, '
          'unsigned vs signed, float that happens to be integral, Path vs str, keyword vs positional default); '
          '(4) a change in clean-up / ordering of file operations (what exists on disk after a failure or after a '
          'second run, files left over, files written in another order); (5) a change in a code path taken only '
          'when an OPTIONAL file or argument is absent.'),
    '6': ('Prefer, this time: (1) the REFUSALS and ERROR behaviours the statement promises (rejects / refuses / raises / '
          'never prevents loading): make one of them silently succeed, or fail on a legal input next to the illegal one; '
          '(2) the INTERACTION of two features named in the same statement (two options, two files, two arguments) that '
          'each work alone; (3) an ALTERNATIVE ENTRY POINT or accessor that reaches the same behaviour (a property next '
          'to a getter, a function next to a method, a cached attribute next to the computation) so that the two '
          'disagree; (4) the ENVIRONMENT of a file operation: current working directory, relative paths, an output '
          'directory that already contains files, an existing file of another size, read-only inputs, iteration order '
          'of a directory listing or a dictionary; (5) IDEMPOTENCE: the same call made twice, the same object used '
          'after close/reopen, a value set to what it already is.'),
    '7': ('Prefer, this time: (1) DEFAULTS: a default argument value, a mutable default argument shared between calls, a '
          'keyword that is honoured when passed explicitly but not when left to its default (or the reverse); '
          '(2) ORDER and TIE-BREAKING that the statement promises (stable order, input order, caller\'s order, '
          'registration order, first wins / last wins); (3) EXACT BOUNDARY COUNTS of a collection (empty, exactly one, '
          'exactly at a limit, == versus <) in a place the earlier proposals did not touch; (4) the KIND OF RESULT the '
          'statement promises (dtype, shape, 0-d versus 1-d, int versus array, a NaN versus a missing entry, a list versus '
          'a dict) while the values stay right; (5) a FAILURE THAT IS SWALLOWED: a try/except or an early return that '
          'silently turns an error or an unusual input into an absent or default result.'),
    '8': ('This time the main rule is LOCATION: the earlier proposals edited the functions listed below (taken from their '
          'patches). Put BOTH of your changes into code that is NOT in that list - another function, method, property, '
          'module-level helper or constant of the same package that the stated behaviour relies on (follow the calls: '
          'readers, writers, small array helpers, path helpers, constructors, `__init__`/`close`/`describe` methods, '
          'class attributes, module constants). If really every relevant function is taken, edit a statement far away '
          'from the earlier edit in the largest of them. Any mechanism is fine as long as the change needs something '
          'specific to manifest.'),
}


EMPHASIS['9'] = EMPHASIS['8'] + (' (A previous round already worked under this rule; the list below includes its edits, '
                                    'so what is left are the less obvious places - look harder, including the other '
                                    'modules the anchored code imports from.)')


EMPHASIS['10'] = EMPHASIS['8'] + (' (Two previous rounds already worked under this rule; the list below includes their '
                                     'edits. What is left: statements inside large functions far from every earlier '
                                     'edit, the less-used branches (ALF names, sparse storage, missing optional files, '
                                     'compressed readers), the other modules the anchored code imports from '
                                     '(phylib/utils/*, phylib/io/array.py, phylib/io/traces.py, phylib/io/model.py), '
                                     'and class attributes / module constants. A change that makes two public routes to '
                                     'the same result disagree is especially welcome.)')


EMPHASIS['11'] = EMPHASIS['8'] + (' (Three previous rounds already worked under this rule; the list below includes '
                                     'their edits.) In addition, this time make the MANIFEST CONDITION numerical or '
                                     'structural rather than a rare option: a threshold on a size (more than 1, 2, 12, 20, '
                                     '64, 256, 1000, 50000 of something; a second batch / chunk / file / probe / call), a '
                                     'particular value relation (two equal values, a value equal to a bound, an id equal to '
                                     'a count, a negative or zero value, a value that is not exactly representable), a '
                                     'dtype width (uint8 / int16 / float32 versus 64-bit), or an aliasing relation (the '
                                     'result shares memory with an input or with an earlier result; a returned array that a '
                                     'later call overwrites; an input array modified in place). Both changes must still be '
                                     'invisible to ordinary small-sample use.')


EMPHASIS['12'] = EMPHASIS['8'] + (' (Four previous rounds already worked under this rule; the list below includes '
                                     'their edits.) In addition, this time prefer one of: (1) TWO PUBLIC ROUTES to the same '
                                     'result that stop agreeing (a property next to a getter, a function next to a method, a '
                                     'value returned next to the same value written to a file or cached on an attribute, a '
                                     'second call with equivalent arguments given in another form); (2) STATE ACROSS CALLS: '
                                     'something remembered between two calls on the same object or in the same process '
                                     '(a cache keyed too coarsely, a default mutated, a buffer reused, an attribute updated '
                                     'too early or not at all) so that only the second or third call is wrong; (3) an ERROR '
                                     'PATH: an input the statement says is rejected / tolerated, right next to a legal '
                                     'input that must keep working. Both changes must still be invisible to ordinary '
                                     'single-call use on small inputs.')


def touched_functions(pid):
    """Function / class names that appear in the hunk headers of the earlier patches of a property."""
    names = {}
    sd = os.path.join(VERIF, 'seeded')
    for name in sorted(os.listdir(sd)):
        if not name.startswith(pid + '-'):
            continue
        cur = None
        for line in open(os.path.join(sd, name, 'patch.diff'), errors='replace'):
            if line.startswith('+++ b/'):
                cur = line[6:].strip()
            m = re.match(r'^@@ .* @@\s*(?:async\s+)?(def|class)\s+(\w+)', line)
            if m and cur:
                names.setdefault(cur, set()).add(m.group(2))
            m = re.match(r'^[-+ ]\s*(def)\s+(\w+)', line)
            if m and cur:
                names.setdefault(cur, set()).add(m.group(2))
    return names


def main():
    rnd = sys.argv[1]
    ids = sys.argv[2:]
    props = {}
    for line in open(os.path.join(VERIF, 'properties.jsonl')):
        p = json.loads(line)
        props[p['id']] = p
    ids = ids or sorted(props)
    wt_root, out_root = '/tmp/seed%s_wt' % rnd, '/tmp/seed%s_out' % rnd
    os.makedirs(wt_root, exist_ok=True)
    for pid in ids:
        p = props[pid]
        wt, out = os.path.join(wt_root, pid), os.path.join(out_root, pid)
        os.makedirs(out, exist_ok=True)
        if not os.path.isdir(wt):
            subprocess.run(['git', '-C', '/repo', 'worktree', 'add', '-q', '--detach', wt, 'HEAD'], check=True)
        files = sorted((p.get('anchors') or {}).get('files') or [])
        text = 'PROPERTY %s: %s\n\nStatement: %s\n\nQuantified over: %s\n\nCode it is anchored in: %s\n' % (
            pid, p['title'], p['statement'], (p.get('quantifier') or {}).get('text', ''), ', '.join(files))
        open(os.path.join(out, 'PROPERTY.txt'), 'w').write(text)
        earlier = []
        sd = os.path.join(VERIF, 'seeded')
        for name in sorted(os.listdir(sd)):
            if not name.startswith(pid + '-'):
                continue
            m = json.load(open(os.path.join(sd, name, 'meta.json')))
            notes = ''
            np_ = os.path.join(sd, name, 'notes.md')
            if os.path.exists(np_):
                lines = [l.strip() for l in open(np_) if l.strip() and not l.startswith('#')]
                notes = ' '.join(lines)[:260]
            what = re.sub(r'^#\s*', '', m.get('what', ''))
            earlier.append('- %s: %s  %s' % (', '.join(m.get('files_changed', [])), what, notes))
        emphasis = EMPHASIS.get(rnd, EMPHASIS['default'])
        if rnd in ('8', '9', '10', '11', '12'):
            tf = touched_functions(pid)
            emphasis += ' Already edited: ' + '; '.join(
                '%s: %s' % (f, ', '.join(sorted(v))) for f, v in sorted(tf.items())) + '.'
        prompt = TEMPLATE.format(wt=wt, out=out, prop=text, earlier='\n'.join(earlier), emphasis=emphasis)
        open(os.path.join(out, 'PROMPT.txt'), 'w').write(prompt)
        print(pid, 'earlier proposals:', len(earlier))


if __name__ == '__main__':
    main()
