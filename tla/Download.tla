---------------------------- MODULE Download ----------------------------
EXTENDS Naturals, Sequences
CONSTANTS PerRequest        \* FALSE: one checksum behaviour per call (stated quantifier)
DataAns == {"good", "corrupt", "err"}
SumAns  == {"correct", "wrong", "missing"}
Prior   == {"absent", "good", "corrupt"}
VARIABLES pc, file, sum, lastsum, gets, outcome, hist
vars == <<pc, file, sum, lastsum, gets, outcome, hist>>

Init == /\ pc = "start" /\ file \in Prior /\ sum \in SumAns /\ lastsum = "none"
        /\ gets = 0 /\ outcome = "none" /\ hist = << <<"init", file, sum>> >>

Verdict(s) == IF s = "missing" THEN "unknown"
              ELSE IF s = "correct" /\ file = "good" THEN "match" ELSE "mismatch"

Check(next_match, next_mismatch, next_unknown) ==
  \E s \in (IF PerRequest THEN SumAns ELSE {sum}) :
     /\ lastsum' = s
     /\ hist' = Append(hist, <<"md5", s>>)
     /\ LET v == Verdict(s) IN
        IF v = "match" THEN pc' = next_match
        ELSE IF v = "mismatch" THEN pc' = next_mismatch
        ELSE pc' \in next_unknown      \* the statement leaves this case open: any listed continuation
     /\ UNCHANGED <<file, sum, gets>>

Start == /\ pc = "start"
         /\ IF file = "absent"
            THEN /\ pc' = "get1" /\ UNCHANGED <<file, sum, lastsum, gets, outcome, hist>>
            ELSE /\ Check("ret", "get1", {"ret", "get1"}) /\ UNCHANGED outcome

Get(from, to) ==
         /\ pc = from
         /\ \E a \in DataAns :
              /\ hist' = Append(hist, <<"data", a>>)
              /\ gets' = gets + 1
              /\ IF a = "err"
                 THEN /\ pc' = "raise_http" /\ file' = file
                 ELSE /\ pc' = to /\ file' = a
         /\ UNCHANGED <<sum, lastsum, outcome>>

Verify1 == pc = "verify1" /\ Check("ret", "get2", {"ret"}) /\ UNCHANGED outcome
Verify2 == pc = "verify2" /\ Check("ret", "raise_mismatch", {"ret"}) /\ UNCHANGED outcome

End(from, o) == pc = from /\ pc' = "done" /\ outcome' = o
                /\ UNCHANGED <<file, sum, lastsum, gets, hist>>
Next == Start \/ Get("get1", "verify1") \/ Get("get2", "verify2") \/ Verify1 \/ Verify2
        \/ End("ret", "returned") \/ End("raise_http", "raised_http")
        \/ End("raise_mismatch", "raised_mismatch")
Spec == Init /\ [][Next]_vars

Done == pc = "done"
NoBadSuccess     == (Done /\ outcome = "returned" /\ lastsum \in {"correct", "wrong"})
                       => (file = "good" /\ lastsum = "correct")
AtMostOneRetry   == gets <= 2
NoRedownload     == (~PerRequest /\ hist[1] = <<"init", "good", "correct">>)
                       => (gets = 0 /\ outcome \in {"none", "returned"})
RetryIffMismatch == (Done /\ gets = 2)
                       => (\E i \in 3..Len(hist) : hist[i][1] = "md5" /\ hist[i-1][1] = "data")
ErrorsRaise      == (Done /\ \E i \in 1..Len(hist) : hist[i] = <<"data", "err">>)
                       => outcome = "raised_http"
=============================================================================
