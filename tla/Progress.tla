---------------------------- MODULE Progress ----------------------------
EXTENDS Naturals, Sequences
CONSTANTS N,      \* values and maxima range over 0..N
          D       \* history depth bound
VARIABLES value, vmax, armed, announced, hist
vars == <<value, vmax, armed, announced, hist>>

Init == /\ value = 0 /\ vmax = 0 /\ armed = TRUE
        /\ announced = FALSE /\ hist = << >>

\* a value update (increment, assignment, set_complete)
Update(v, label) ==
  LET a1 == IF v < vmax THEN TRUE ELSE armed       \* set below the maximum re-arms
      ann == a1 /\ v >= vmax
  IN /\ value' = v
     /\ announced' = ann
     /\ armed' = IF ann THEN FALSE ELSE a1
     /\ vmax' = vmax
     /\ hist' = Append(hist, label)

Inc         == value < N /\ Update(value + 1, <<"inc">>)
SetValue    == \E v \in 0..N : Update(v, <<"value", v>>)
SetComplete == Update(vmax, <<"complete">>)
SetMax      == \E m \in 0..N :
                 /\ vmax' = m
                 /\ armed' = IF m > vmax THEN TRUE ELSE armed   \* raising the maximum re-arms
                 /\ announced' = FALSE
                 /\ value' = value
                 /\ hist' = Append(hist, <<"max", m>>)
\* reset(value_max=None | m): value := 0; only resets leaving a positive maximum (see C19b)
ResetTo(m, label) ==
                 /\ m > 0
                 /\ value' = 0
                 /\ vmax' = m
                 /\ armed' = TRUE
                 /\ announced' = FALSE
                 /\ hist' = Append(hist, label)
Reset    == ResetTo(vmax, <<"reset">>)
ResetMax == \E m \in 0..N : ResetTo(m, <<"resetmax", m>>)

Next == Len(hist) < D /\ (Inc \/ SetValue \/ SetComplete \/ SetMax \/ Reset \/ ResetMax)
Spec == Init /\ [][Next]_vars

AnnounceOnlyAtMax == announced => (value >= vmax /\ ~armed)
ArmedBelowMax     == (value < vmax) => armed
=============================================================================
