# -*- coding: utf-8 -*-
"""Small helpers shared by the property modules (no phylib imports here)."""
import itertools
import math

import numpy as np


def compositions(n):
    """Every composition of n into parts >= 1, shortest first."""
    out = []
    for k in range(1, n + 1):
        for cuts in itertools.combinations(range(1, n), k - 1):
            b = (0,) + cuts + (n,)
            out.append(tuple(b[i + 1] - b[i] for i in range(k)))
    return out


def nondecreasing(length, alphabet):
    return itertools.combinations_with_replacement(alphabet, length)


def arr_equal(a, b, dtype=True):
    """Exact, NaN-aware equality of two arrays in value, shape and (optionally) dtype."""
    if not isinstance(a, np.ndarray) or not isinstance(b, np.ndarray):
        return False
    if a.shape != b.shape:
        return False
    if dtype and a.dtype != b.dtype:
        return False
    if a.size == 0:
        return True
    try:
        return bool(np.array_equal(a, b, equal_nan=True))
    except TypeError:
        return bool(np.array_equal(a, b))


def arr_equal_ulp(a, b, ulps=4):
    """Same shape and dtype; integers exactly equal; floats equal up to a few ULP (NumPy's SIMD
    and scalar loops for pow/divide differ in the last bit depending on how many rows are
    evaluated at once), NaN and inf positions identical."""
    if not isinstance(a, np.ndarray) or not isinstance(b, np.ndarray):
        return False
    if a.shape != b.shape or a.dtype != b.dtype:
        return False
    if a.size == 0:
        return True
    if a.dtype.kind not in 'fc':
        return bool(np.array_equal(a, b))
    with np.errstate(all='ignore'):
        if a.dtype.kind == 'f':
            # a result within a factor 2 of overflow is in the same class as an overflowed one
            big = np.finfo(a.dtype).max / 2
            a = np.where(np.abs(a) > big, np.sign(a) * np.inf, a).astype(a.dtype)
            b = np.where(np.abs(b) > big, np.sign(b) * np.inf, b).astype(b.dtype)
        fin_a, fin_b = np.isfinite(a), np.isfinite(b)
        if not np.array_equal(fin_a, fin_b):
            return False
        if not np.array_equal(a[~fin_a], b[~fin_a], equal_nan=True):
            return False
        x, y = a[fin_a], b[fin_a]
        if x.size == 0:
            return True
        eps = np.finfo(a.dtype).eps
        tol = ulps * eps * np.maximum(np.abs(x), np.abs(y))
        tiny = np.finfo(a.dtype).tiny
        return bool(np.all(np.abs(x - y) <= np.maximum(tol, tiny)))


def arr_close(a, b, rtol=1e-5, atol=1e-6):
    a = np.asarray(a)
    b = np.asarray(b)
    if a.shape != b.shape:
        return False
    if a.size == 0:
        return True
    return bool(np.allclose(a, b, rtol=rtol, atol=atol, equal_nan=True))


def deep_equal(a, b):
    """Type-strict, NaN-aware structural equality (bool != int != float; list != ndarray)."""
    if isinstance(a, np.ndarray) or isinstance(b, np.ndarray):
        return arr_equal(a, b)
    if isinstance(a, bool) or isinstance(b, bool):
        return isinstance(a, bool) and isinstance(b, bool) and a == b
    if isinstance(a, int) and isinstance(b, int):
        return a == b
    if isinstance(a, float) and isinstance(b, float):
        if math.isnan(a) or math.isnan(b):
            return math.isnan(a) and math.isnan(b)
        return a == b and math.copysign(1, a) == math.copysign(1, b)
    if isinstance(a, complex) and isinstance(b, complex):
        return a == b
    if isinstance(a, str) and isinstance(b, str):
        return a == b
    if a is None or b is None:
        return a is None and b is None
    if isinstance(a, list) and isinstance(b, list):
        return len(a) == len(b) and all(deep_equal(x, y) for x, y in zip(a, b))
    if isinstance(a, dict) and isinstance(b, dict):
        if len(a) != len(b):
            return False
        for k, v in a.items():
            found = [k2 for k2 in b if type(k2) is type(k) and k2 == k]
            if len(found) != 1 or not deep_equal(v, b[found[0]]):
                return False
        return True
    return False


def describe(x):
    """Short description of an observation for violation records."""
    if isinstance(x, np.ndarray):
        return {'type': 'ndarray', 'shape': list(x.shape), 'dtype': str(x.dtype),
                'data': x.tolist() if x.size <= 48 else '...'}
    if isinstance(x, BaseException):
        return {'exception': type(x).__name__, 'message': str(x)[:200]}
    return x


def fill_values(n, seed, lo=1, spread=7):
    """A deterministic integer sequence, distinct, depending on the seed (no RNG state)."""
    # affine permutation of 0..n-1 mapped to distinct values
    if n == 0:
        return np.zeros(0, dtype=np.int64)
    a = [1, 3, 5, 7, 11, 13][seed % 6]
    m = n
    while math.gcd(a, m) != 1:
        a += 2
    idx = (a * np.arange(n) + 3 * seed) % m
    return lo + idx.astype(np.int64)
