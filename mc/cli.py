# -*- coding: utf-8 -*-
"""Entry point: python -m mc.cli <ID> [--tier quick|thorough] [--replay FILE]."""
import argparse
import importlib
import json
import os
import sys
import time
import traceback

from . import core


MAX_REPRO = 6   # fresh-process re-executions per run (smallest cases first)


def _module(prop):
    return importlib.import_module('mc.props.%s' % prop.lower())


def _import_violation(prop, e):
    sig = '%s/import/%s' % (prop, str(e).split(':')[0])
    return sig, core.make_record(prop, 'import', sig, case={'import': 'phylib'},
                                 expected='the anchored phylib modules import in a fresh process',
                                 observed=str(e))


def _tuplify(x):
    return tuple(_tuplify(v) for v in x) if isinstance(x, list) else x


def _replay_crash(prop, path, record, mod, raw):
    """The recorded case killed the worker process: re-run it (after the recorded history) in a
    forked child and report whether the child dies again."""
    ph = record.get('process_history') or {}
    mod.imports()

    def body():
        if not ph.get('fn'):
            return
        modname, fname = ph['fn'].split(':')
        fn = getattr(importlib.import_module(modname), fname)
        acc = core.Acc()
        if ph.get('mode') == 'bfs':
            if hasattr(mod, 'prepare'):
                mod.prepare(ph.get('tier') or 'quick', ph.get('seed') or 0)
            for c in ph['cases']:
                try:
                    fn(_tuplify(c[0]), _tuplify(c[1]), acc)
                except Exception:
                    pass
        else:
            for c in ph['cases'] + [record.get('case')]:
                try:
                    fn(c, acc, 0)
                except Exception:
                    pass
    died = core.died_in_child(body)
    print('replay %s: signature %s' % (path, record['signature']))
    print('  recorded: %s' % json.dumps(record.get('observed'))[:600])
    if not died:
        print('  now     : the process survives the recorded case')
        return 0
    print('  now     : the process running the recorded case died (%s)' % died)
    known = core.known_map(prop)
    if record['signature'] in known and not raw:
        print('KNOWN-FINDING: property=%s %s' % (prop, known[record['signature']]['what_fails']))
        return 0
    print('VIOLATION property=%s replay=%s' % (prop, path))
    return 1


def do_replay(prop, path, raw):
    with open(path) as f:
        record = json.load(f)
    mod = _module(prop)
    got, note = [], ''
    ph = record.get('process_history')
    if record.get('subcheck') == 'crash':
        return _replay_crash(prop, path, record, mod, raw)
    if ph and ph.get('cases') and record.get('subcheck') != 'import':
        # faithful reproduction first: the cases the worker process had run just before, then the
        # case itself (state kept by the code under test between calls is reproduced as well)
        modname, fname = ph['fn'].split(':')
        fn = getattr(importlib.import_module(modname), fname)
        mod.imports()
        acc = core.Acc()
        bfs_mode = ph.get('mode') == 'bfs'
        if bfs_mode and hasattr(mod, 'prepare'):
            mod.prepare(ph.get('tier') or 'quick', ph.get('seed') or 0)   # module globals of the search
        for c in (ph['cases'] if bfs_mode else ph['cases'] + [record.get('case')]):
            try:
                if bfs_mode:
                    fn(_tuplify(c[0]), _tuplify(c[1]), acc)
                else:
                    fn(c, acc, 0)
            except core.PhylibImportError:
                raise
            except Exception as e:
                core._uncaught(fn, e, acc, 0, case=c, prop=prop)
        got = [dict(v['record'], signature=s) for s, v in acc.violations.items()]
        note = ' (replayed after the %d cases the process had run before it)' % len(ph['cases'])
    if not [r for r in got if r['signature'] == record['signature']]:
        note = ''
        if record.get('subcheck') == 'import':
            try:
                mod.imports()
                got = []
            except core.PhylibImportError as e:
                sig, rec = _import_violation(prop, e)
                got = [rec]
        else:
            try:
                got = mod.replay(record)
            except core.PhylibImportError:
                raise
            except Exception as e:
                # the replayed case crashes: same classification as in the explorer
                acc = core.Acc()
                core._uncaught(mod.replay, e, acc, 0, case=record.get('case'), trace=record.get('trace'),
                               prop=prop)
                got = [dict(v['record'], signature=s) for s, v in acc.violations.items()]
    match = [r for r in got if r['signature'] == record['signature']]
    if match and note:
        print(' ' + note)
    print('replay %s: signature %s' % (path, record['signature']))
    print('  expected: %s' % json.dumps(record.get('expected'))[:600])
    print('  recorded: %s' % json.dumps(record.get('observed'))[:600])
    if not match:
        others = sorted(set(r['signature'] for r in got))
        print('  now     : no violation with this signature%s' % (
            (' (other signatures: %s)' % ', '.join(others)) if others else ''))
        return 0
    print('  now     : %s' % json.dumps(match[0].get('observed'))[:600])
    known = core.known_map(prop)
    if record['signature'] in known and not raw:
        print('KNOWN-FINDING: property=%s %s' % (prop, known[record['signature']]['what_fails']))
        return 0
    print('VIOLATION property=%s replay=%s' % (prop, path))
    return 1


def do_explore(prop, tier, seed, jobs):
    mod = _module(prop)
    ctx = core.Ctx(prop, tier, seed, jobs)
    import_failed = None
    try:
        try:
            mod.imports()
        except core.PhylibImportError as e:
            import_failed = e
        if import_failed is None:
            mod.explore(ctx)
        else:
            sig, rec = _import_violation(prop, import_failed)
            ctx.acc.violation(sig, rec)
            ctx.acc.state()
            ctx.acc.step(cls='import-failed')
            ctx.rule = 'import of the anchored modules failed; nothing else could be explored'
            ctx.exhaustive = False
    finally:
        ctx.close()

    known = core.known_map(prop)
    known_seen, unreproduced, reported = [], [], []
    harness_errors = 0
    for sig, v in sorted(ctx.acc.violations.items(), key=lambda kv: (kv[1]['order'], kv[0])):
        rec = dict(v['record'])
        rec.update(property=prop, signature=sig, tier=tier, seed=seed, count=v['count'],
                   phylib_rev=core.phylib_rev())
        if sig.startswith('HARNESS/'):
            harness_errors += 1
            path = core.write_replay(prop, rec)
            print('HARNESS-ERROR property=%s signature=%s count=%d see=%s' % (prop, sig, v['count'], path))
            print(str(rec.get('observed'))[-1200:])
            continue
        if sig in known:
            known_seen.append({'signature': sig, 'count': v['count']})
            print('KNOWN-FINDING: property=%s %s (signature %s, %d cases)' % (
                prop, known[sig]['what_fails'], sig, v['count']))
            continue
        path = core.write_replay(prop, rec)
        if os.environ.get('VERIF_NO_REPRO') or len(reported) >= MAX_REPRO:
            # enough signatures of this run were already re-executed in a fresh process
            ok, out = True, ''
        else:
            try:
                ok, out = core.reproduce_in_fresh_process(prop, path)
            except Exception as e:
                ok, out = False, 'reproduction failed to run: %s' % e
        if ok:
            rec['reproduced_in_fresh_process'] = True
            core.write_replay(prop, rec)
            reported.append((sig, path, v['count']))
        else:
            unreproduced.append({'signature': sig, 'count': v['count'], 'replay': path,
                                 'fresh_process_output': out})
    n_viol = len(reported)
    ev = core.write_evidence(ctx, n_viol, known_seen, unreproduced)
    acc = ctx.acc
    print('%s %s seed=%d: states=%d transitions=%d nontrivial=%d classes=%d exhaustive=%s wall=%.1fs' % (
        prop, tier, seed, acc.states, acc.transitions, acc.nontrivial, len(acc.classes),
        ctx.exhaustive, time.time() - ctx.t0))
    for name, sw in ctx.sweeps.items():
        print('  sweep %-22s cases=%-8d states=%-8d transitions=%-10d nontrivial=%d' % (
            name, sw['cases'], sw['states'], sw['transitions'], sw['nontrivial']))
    if ev:
        val = core.validate_evidence(ev)
        if val not in (None, True):
            print('EVIDENCE-INVALID %s: %s' % (ev, val))
            return 2
    for u in unreproduced:
        print('UNREPRODUCED property=%s signature=%s replay=%s (seen %d times in the explorer, '
              'not in a fresh process: an unowned source of nondeterminism in the harness)' % (
                  prop, u['signature'], u['replay'], u['count']))
    for sig, path, count in reported:
        print('  signature=%s cases=%d' % (sig, count))
        print('VIOLATION property=%s replay=%s' % (prop, path))
    if reported:
        return 1          # a reproduced violation stands, whatever else went wrong in the same run
    if harness_errors or unreproduced:
        return 2
    if acc.transitions == 0:
        print('VACUOUS: nothing explored')
        return 2
    return 1 if reported else 0


def main(argv=None):
    ap = argparse.ArgumentParser()
    ap.add_argument('prop')
    ap.add_argument('--tier', default=os.environ.get('VERIF_TIER') or 'quick',
                    choices=['quick', 'thorough'])
    ap.add_argument('--replay')
    ap.add_argument('--raw', action='store_true',
                    help='with --replay: exit 1 on reproduction even if the finding is known')
    ap.add_argument('--jobs', type=int, default=int(os.environ.get('VERIF_JOBS') or
                                                    min(16, os.cpu_count() or 1)))
    args = ap.parse_args(argv)
    prop = args.prop.upper()
    try:
        seed = int(os.environ.get('VERIF_SEED') or 0)
    except ValueError:
        seed = 0
    os.environ.setdefault('PYTHONHASHSEED', '0')
    try:
        if args.replay:
            return do_replay(prop, args.replay, args.raw)
        return do_explore(prop, args.tier, seed, args.jobs)
    except Exception:
        traceback.print_exc()
        return 2


if __name__ == '__main__':
    sys.exit(main())
