# -*- coding: utf-8 -*-
"""Dataset generator with independent ground truth.

make_dataset(dir, spec) writes a KiloSort/phy (or ALF-named) dataset directory and returns the
arrays it wrote (`truth`), so that expectations never flow through phylib's own readers.
Everything is deterministic in `spec` (a JSON-able dict, see DEFAULTS).
"""
import hashlib
import os

import numpy as np

DEFAULTS = {
    'n_spikes': 7, 'n_templates': 3, 'n_channels': 4, 'nsw': 4, 'n_raw': 40,
    'naming': 'ks',            # 'ks' | 'alf'
    'vec2d': False,            # store vectors as (n, 1)
    'spike_templates': None,   # explicit list or None
    'spike_clusters': 'same',  # 'same' | 'absent' | explicit list
    'amplitudes': True,
    'whitening': 'mixing',     # 'identity' | 'mixing' | 'gains' (mixing x unequal channel gains) | 'absent'
    'whitening_inv': False,    # write whitening_mat_inv.npy
    'shanks': 'absent',        # 'absent' | 'one' | 'two'
    'probes': 'absent',        # 'absent' | 'zeros' | 'two'
    'features': 'absent',      # 'absent' | 'dense' | 'sparse' | 'sparse_rows' | 'noind'
    'tfeatures': 'absent',     # 'absent' | 'sparse' | 'sparse_rows' | 'noind'
    'similar': True,
    'raw': True, 'raw_extra_channels': 0, 'raw_offset': 0, 'raw_dtype': 'int16', 'raw_files': 1,
    'raw_format': 'dat',       # 'dat' | 'npy' | 'cbin' (npy / cbin: one file, no header offset)
    'templates': 'dense',      # 'dense' | 'sparse'
    'id_dtype': 'int32', 'time_dtype': 'uint64',
    'alf_samples': True,
    'raw_dir': '',             # sub-directory (relative, named in params.py) holding the flat raw files
    'raw_nonfinite': False,    # float raw data with inf / NaN / -inf at three samples
    'alf_clock': 'rate',       # 'rate': seconds = samples / rate | 'sync': seconds on another clock
    'attrs': 'none',           # 'none' | '1d' | '2d' | 'wronglen' | 'col' (n,1) | 'row' (1,n)
    'content': 'finite',       # 'nan_amp' | 'inf_wm' | 'nan_similar' | 'nan_template' | 'nan_features'
    'monotone': True,
    'geometry': 'line',        # 'line' | 'grid' | 'twoshank' | 'col14' | 'linex0' | 'line14_eps' | ...
    'channel_map': 'identity', # 'identity' | 'perm' | 'sub'
    'sample_rate': 100.0,
    'profile': None,           # per-template amplitude level permutations (list of lists) or None
    'spike_samples': None,     # explicit list or None
    'template_dtype': 'float32',   # storage dtype of templates.npy (float32 | float64)
    'feat_dtype': 'float32',   # storage dtype of pc_features / template_features
    'nonpositive_spikes': (),  # spikes whose first-component features are all <= 0
    'n_loc': None,             # width of the feature tables (default min(n_channels, 3))
    'n_tloc': None,            # width of the template-feature tables (default min(n_templates, 2))
    'ind_high': False,         # feature column table names the highest channel indices
    'ind_dtype': 'uint32',     # dtype of pc_feature_ind / template_feature_ind
    'amp_base': 1.0,           # amplitudes are amp_base + 0.25 * k (distinct per spike)
    'sparse_cols': None,       # explicit (n_templates, n_loc) column table (may contain -1)
    'sparse_zero': None,       # per template: index of an all-zero stored column, or None
    'dc_offset': None,         # [(template, channel, offset)]: constant added to one channel of a template
    'sparse_neg': None,        # per template: index of a stored column that is negative-only, or None
    'feat_rows': None, 'tfeat_rows': None,     # explicit row tables for 'sparse_rows_list'
    'ks2_templates_ind': False,    # dense KS naming: also write KiloSort2's templates_ind.npy (every row 0..nc-1),
                                   # a file the loader ignores
    'tsv': {},                 # extra per-cluster TSV files {name: {'field': f, 'values': {id: v}}}
    'fill': 0,
}


def spec_with_defaults(spec):
    s = dict(DEFAULTS)
    s.update(spec or {})
    return s


def geometry(name, nc):
    """Channel positions (nc, 2) and shanks."""
    if name == 'line':
        pos = np.array([[0., 10. * i] for i in range(nc)])
        shanks = np.zeros(nc, dtype=np.int32)
    elif name == 'linex10':
        pos = np.array([[10., 20. * i] for i in range(nc)])
        shanks = np.zeros(nc, dtype=np.int32)
    elif name == 'linex0':
        pos = np.array([[0., 20. * i] for i in range(nc)])
        shanks = np.zeros(nc, dtype=np.int32)
    elif name == 'grid':       # 2 columns, rows 25 apart, columns 16 apart: no ties at the cut-off
        pos = np.array([[16. * (i % 2), 25. * (i // 2) + 3. * (i % 2)] for i in range(nc)])
        shanks = np.zeros(nc, dtype=np.int32)
    elif name == 'rect':       # a rectangular 2-column layout: sites share x and y values (distinct rows)
        pos = np.array([[16. * (i % 2), 20. * (i // 2)] for i in range(nc)])
        shanks = np.zeros(nc, dtype=np.int32)
    elif name == 'col14p_mm':    # the two-column layout in mm, sites numbered in a scattered order
        pos, shanks = geometry('col14', nc)
        pos = pos[[(i * 5) % nc for i in range(nc)]] * 0.001 if np.gcd(5, nc) == 1 else pos[::-1] * 0.001
    elif name in ('grid_mm', 'col14_mm'):   # the same layouts with coordinates in millimetres: distinct
        # positions less than one unit apart
        pos, shanks = geometry(name[:-3], nc)
        pos = pos * 0.001
    elif name == 'twoshank':   # two shanks of nc//2 (+ remainder on the first)
        h = (nc + 1) // 2
        pos = np.array([[0. if i < h else 200., 12. * (i if i < h else i - h) + (0 if i < h else 5)]
                        for i in range(nc)])
        shanks = np.array([0 if i < h else 1 for i in range(nc)], dtype=np.int32)
    elif name == 'twoshank_close':   # two interleaved shanks 14 apart: the other shank's channels are
        # among the nearest neighbours of every channel
        pos = np.array([[14. * (i % 2), 20. * (i // 2) + 3. * (i % 2)] for i in range(nc)])
        shanks = np.array([i % 2 for i in range(nc)], dtype=np.int32)
    elif name == 'line14_eps':
        # one column, pitch 16; the last two sites sit 2**-18 closer: for a peak on channel 6 (7) the 12th
        # nearest channel is 12 (13) and not 0 (1) - a difference that single precision or rounding loses
        pos = np.array([[0., 16. * i] for i in range(nc)])
        pos[12:, 1] -= 2.0 ** -18
        shanks = np.zeros(nc, dtype=np.int32)
    elif name == 'col14':      # two columns, 14+ channels
        pos = np.array([[22. * (i % 2), 20. * (i // 2) + 7. * (i % 2)] for i in range(nc)])
        shanks = np.zeros(nc, dtype=np.int32)
    else:
        raise ValueError(name)
    return pos, shanks


def default_templates(nt, nsw, nc, fill, profile=None):
    """Dense templates with distinct per-channel peak-to-peak amplitudes per template."""
    shape = np.array([0., -1., 2., 0.5, -0.25, 0.125, 0., 0.][:nsw] if nsw <= 8 else
                     list(np.sin(np.arange(nsw))))
    if nsw == 1:
        shape = np.array([1.])
    T = np.zeros((nt, nsw, nc), dtype=np.float32)
    for t in range(nt):
        if profile is not None:
            levels = np.array(profile[t], dtype=np.float64)
        else:
            base = np.arange(1, nc + 1, dtype=np.float64)        # distinct levels 1..nc
            levels = np.roll(base, t * 2 + fill)[::(-1 if (t + fill) % 2 else 1)]
        for c in range(nc):
            # shift the waveform by a channel dependent lag so that durations differ
            T[t, :, c] = np.roll(shape, (c + t) % max(1, nsw - 1) if nsw > 2 else 0) * levels[c]
    return T


def mixing_matrix(nc):
    wm = np.eye(nc) * 2.0
    for i in range(nc):
        for j in range(nc):
            if i != j:
                wm[i, j] = 0.25 / (1 + abs(i - j)) * (1 if (i + j) % 2 else -1)
                if i < j:
                    wm[i, j] += 0.125        # not symmetric: a transposed product is observable
    return wm


def sha1_dir(d):
    out = {}
    for fn in sorted(os.listdir(str(d))):
        p = os.path.join(str(d), fn)
        if os.path.isfile(p):
            with open(p, 'rb') as f:
                out[fn] = hashlib.sha1(f.read()).hexdigest()
    return out


def _vec(a, vec2d):
    a = np.asarray(a)
    return a.reshape(-1, 1) if vec2d else a


def make_dataset(d, spec=None):
    s = spec_with_defaults(spec)
    d = str(d)
    os.makedirs(d, exist_ok=True)
    ns, nt, nc, nsw = s['n_spikes'], s['n_templates'], s['n_channels'], s['nsw']
    fill = int(s['fill'])
    alf = s['naming'] == 'alf'
    sparse_t = s['templates'] == 'sparse' or alf
    sr = float(s['sample_rate'])
    truth = {'spec': s}

    def save(name, arr):
        np.save(os.path.join(d, name), arr)

    # --- spikes
    if s['spike_samples'] is not None:
        samples = np.array(s['spike_samples'])
    else:
        step = max(1, (s['n_raw'] - 4) // max(1, ns))
        samples = 2 + step * np.arange(ns)
    if not s['monotone']:
        samples = samples.copy()
        samples[1], samples[2] = samples[2] + 1, samples[1]
    elif s['monotone'] == 'ties' and len(samples) >= 3:
        samples = samples.copy()
        samples[2] = samples[1]         # two spikes at the same sample: non-decreasing, legal
    samples = samples.astype(s['time_dtype'])
    truth['spike_samples'] = samples
    if s['spike_templates'] is not None:
        st = np.array(s['spike_templates'])
    else:
        st = np.array([(i * 2 + fill) % nt for i in range(ns)])
        st[:nt] = np.arange(nt)     # every template used
    st = st.astype(s['id_dtype'])
    truth['spike_templates'] = st
    if isinstance(s['spike_clusters'], (list, tuple)):
        sc = np.array(s['spike_clusters']).astype(s['id_dtype'] if s['id_dtype'] != 'uint16' else 'int32')
    else:
        sc = st.copy()
    truth['spike_clusters'] = sc
    mult = next(m_ for m_ in (3, 5, 7, 11, 13, 1) if np.gcd(m_, max(ns, 1)) == 1)
    amps = (float(s['amp_base']) + 0.25 * ((np.arange(ns) * mult + fill) % ns)).astype(np.float64)
    if s['content'] == 'nan_amp':
        amps[1] = np.nan
    truth['amplitudes'] = amps if s['amplitudes'] else None

    if alf:
        truth['spike_times_sec'] = samples.astype(np.float64) / sr
        if s['alf_clock'] == 'sync' and s['alf_samples']:
            # seconds on another (synchronised) clock: not samples / rate; the sample file is there
            truth['spike_times_sec'] = truth['spike_times_sec'] * (1.0 + 2.0 ** -14) + 0.25
        save('spikes.times.npy', _vec(truth['spike_times_sec'], s['vec2d']))
        if s['alf_samples']:
            save('spikes.samples.npy', _vec(samples, s['vec2d']))
        save('spikes.templates.npy', _vec(st, s['vec2d']))
        if s['spike_clusters'] != 'absent':
            save('spikes.clusters.npy', _vec(sc, s['vec2d']))
        if s['amplitudes']:
            save('spikes.amps.npy', _vec(amps, s['vec2d']))
    else:
        save('spike_times.npy', _vec(samples, s['vec2d']))
        save('spike_templates.npy', _vec(st, s['vec2d']))
        if s['spike_clusters'] != 'absent':
            save('spike_clusters.npy', _vec(sc, s['vec2d']))
        if s['amplitudes']:
            save('amplitudes.npy', _vec(amps, s['vec2d']))

    # --- channels
    pos, shanks = geometry(s['geometry'], nc)
    n_dat = nc + int(s['raw_extra_channels'])
    if s['channel_map'] == 'identity':
        cmap = np.arange(nc)
    elif s['channel_map'] == 'perm':
        cmap = np.roll(np.arange(nc), 1)      # the largest raw index comes first
    elif s['channel_map'] == 'sub_high':   # a sub-selection that does not contain raw channel 0
        n_dat = max(n_dat, nc + 3)
        cmap = np.arange(nc) + 2
        cmap[-1] += 1
    else:   # a sub-selection of a wider raw file
        n_dat = max(n_dat, nc + 2)
        cmap = np.array([i + (1 if i >= 1 else 0) + (1 if i >= nc - 1 else 0) for i in range(nc)])
    cmap = cmap.astype(np.int32)
    truth['channel_map'] = cmap
    truth['channel_positions'] = pos
    truth['n_channels_dat'] = n_dat
    save('channels.rawInd.npy' if alf else 'channel_map.npy', _vec(cmap, s['vec2d']))
    save('channels.localCoordinates.npy' if alf else 'channel_positions.npy', pos)
    if s['shanks'] != 'absent':
        sh = shanks if s['shanks'] == 'two' or s['geometry'].startswith('twoshank') else np.zeros(nc, np.int32)
        truth['channel_shanks'] = sh
        save('channels.shanks.npy' if alf else 'channel_shanks.npy', _vec(sh, s['vec2d']))
    else:
        truth['channel_shanks'] = None
    if s['probes'] != 'absent':
        pr = np.zeros(nc, dtype=np.int32)
        if s['probes'] == 'two':
            pr[nc // 2:] = 1
        truth['channel_probes'] = pr
        save('channels.probes.npy' if alf else 'channel_probe.npy', _vec(pr, s['vec2d']))
    else:
        truth['channel_probes'] = None

    # --- templates
    T = default_templates(nt, nsw, nc, fill, s['profile']).astype(s['template_dtype'])
    if s['template_dtype'] == 'float64':
        T = T * (1.0 + 2.0 ** -30)      # values that no float32 holds (same order, same ratios)
    for (t_, c_, off_) in (s['dc_offset'] or []):
        if t_ < nt and c_ < nc:
            T[t_][:, c_] += off_          # a channel with a constant offset (all samples positive)
    Tclean = T
    if s['content'] == 'nan_template':
        T[nt - 1] = np.nan
    elif s['content'] == 'nan_template_channel':
        # one channel of one template is NaN at every sample, the template is finite elsewhere
        Tclean = T.copy()
        a0 = T[0].max(axis=0) - T[0].min(axis=0)
        T[0][:, int(np.argsort(-a0, kind='stable')[min(1, nc - 1)])] = np.nan
    if sparse_t and s['sparse_cols'] is not None:
        cols = np.array(s['sparse_cols'], dtype=np.int32)
        nloc = cols.shape[1]
        data = np.zeros((nt, nsw, nloc), dtype=np.float32)
        Tfull = np.zeros_like(T)
        for t in range(nt):
            for j in range(nloc):
                zero = s['sparse_zero'] is not None and s['sparse_zero'][t] == j
                neg = s['sparse_neg'] is not None and s['sparse_neg'][t] == j
                if cols[t, j] != -1 and not zero:
                    v = T[t][:, cols[t, j]]
                    if neg:
                        v = -np.abs(v)       # a purely negative deflection: no sample above zero
                    data[t][:, j] = v
                    Tfull[t][:, cols[t, j]] = v
                elif cols[t, j] == -1 and t % 2 == 1:
                    # an unused (-1) column is not guaranteed to hold zeros: leave garbage in it
                    data[t][:, j] = T[t][:, (t + j) % nc] * 0.5 + 0.25
        T = Tfull     # the dense equivalent: zero on channels that are not stored
        truth['templates_data'] = data
        truth['templates_cols'] = cols
        save('templates.waveforms.npy' if alf else 'templates.npy', data)
        save('templates.waveformsChannels.npy' if alf else 'template_ind.npy', cols)
    elif sparse_t:
        nloc = min(nc, 3)
        cols = np.zeros((nt, nloc), dtype=np.int32)
        data = np.zeros((nt, nsw, nloc), dtype=np.float32)
        Tfull = np.zeros_like(T)
        for t in range(nt):
            amp = np.nan_to_num(Tclean[t].max(axis=0) - Tclean[t].min(axis=0))
            order = np.argsort(-amp, kind='stable')[:nloc]
            cols[t] = order
            data[t] = T[t][:, order]
            Tfull[t][:, order] = T[t][:, order]
        T = Tfull
        truth['templates_data'] = data
        truth['templates_cols'] = cols
        save('templates.waveforms.npy' if alf else 'templates.npy', data)
        save('templates.waveformsChannels.npy' if alf else 'template_ind.npy', cols)
    else:
        truth['templates_data'] = T
        truth['templates_cols'] = None
        save('templates.npy', T)
        if s['ks2_templates_ind']:
            save('templates_ind.npy', np.tile(np.arange(nc, dtype=np.float64), (nt, 1)))
    truth['templates_dense'] = T

    # --- whitening, similarity
    if s['whitening'] == 'absent':
        truth['wm'] = None
    else:
        wm = np.eye(nc) if s['whitening'] == 'identity' else mixing_matrix(nc)
        if s['whitening'] == 'gains':
            # strongly unequal channel gains: unwhitening changes which channel is the largest
            wm = wm @ np.diag([[1.0, 4.0, 0.5, 2.0, 0.25][c % 5] for c in range(nc)])
        if s['content'] == 'inf_wm':
            wm = wm.copy()
            wm[0, nc - 1] = np.inf
        truth['wm'] = wm
        save('whitening_mat.npy', wm)
    if s['whitening_inv'] and s['whitening'] != 'absent' and s['content'] != 'inf_wm':
        wmi = np.linalg.inv(truth['wm'])
        truth['wmi_file'] = wmi
        save('whitening_mat_inv.npy', wmi)
    else:
        truth['wmi_file'] = None
    if s['similar']:
        # not symmetric (a similarity score need not be)
        sim = np.eye(nt) + 0.125 * (np.arange(nt)[:, None] + 2 * np.arange(nt)[None, :])
        if s['content'] == 'nan_similar':
            sim[0, 1] = np.nan
        truth['similar_templates'] = sim
        save('similar_templates.npy', sim)
    else:
        truth['similar_templates'] = None

    # --- features
    truth['pc_features'] = truth['pc_feature_ind'] = truth['pc_feature_rows'] = None
    if s['features'] != 'absent':
        nloc = s['n_loc'] or min(nc, 3)
        rows = None
        n_f = ns
        if s['features'] == 'sparse_rows':
            rows = np.array([i for i in range(ns) if i % 2 == 0] or [0], dtype=np.int64)
            n_f = len(rows)
        elif s['features'] == 'sparse_rows_list':
            # an explicit (short, unsorted) list of stored spikes, e.g. with very large spike ids
            rows = np.array(s['feat_rows'], dtype=np.int64)
            n_f = len(rows)
        elif s['features'] == 'sparse_rows_all':
            # a row table that lists every spike, in another order than the spike order
            rows = np.array(list(range(ns))[::-1], dtype=np.int64)
        elif s['features'] == 'sparse_rows_unsorted':
            rows = np.array([i for i in range(ns) if i % 2 == 0][::-1] or [0], dtype=np.int64)
            n_f = len(rows)
        npcs = 2
        pcf = np.zeros((n_f, npcs, nloc), dtype=s['feat_dtype'])
        for i in range(n_f):
            for p in range(npcs):
                for c in range(nloc):
                    pcf[i, p, c] = ((i * 5 + p * 3 + c * 7 + fill) % 13 - 4) * (
                        0.5 if s['feat_dtype'] == 'float32' else 0.1)     # 0.1: not a float32 number
        for i in s['nonpositive_spikes']:
            if i < n_f:
                pcf[i, 0, :] = [-1.0, 0.0, -0.5, -2.0][:nloc]
        if s['content'] == 'nan_features':
            pcf[0, 0, 0] = np.nan
        truth['pc_features'] = pcf
        save('pc_features.npy', pcf)
        if s['features'].startswith('sparse'):
            ind = np.zeros((nt, nloc), dtype=s['ind_dtype'])
            for t in range(nt):
                ind[t] = np.roll(np.arange(nc), -t)[:nloc]
                if s['ind_high']:
                    ind[t] = [(nc - 1 - t - j) % nc for j in range(nloc)]
            truth['pc_feature_ind'] = ind
            save('pc_feature_ind.npy', ind)
        if rows is not None:
            truth['pc_feature_rows'] = rows
            save('pc_feature_spike_ids.npy', rows)
    truth['template_features'] = truth['template_feature_ind'] = truth['template_feature_rows'] = None
    if s['tfeatures'] != 'absent':
        ntl = s['n_tloc'] or min(nt, 2)
        rows = None
        n_f = ns
        if s['tfeatures'] == 'sparse_rows':
            rows = np.array([i for i in range(ns) if i % 2 == 1] or [0], dtype=np.int64)
            n_f = len(rows)
        elif s['tfeatures'] == 'sparse_rows_list':
            rows = np.array(s['tfeat_rows'], dtype=np.int64)
            n_f = len(rows)
        elif s['tfeatures'] == 'sparse_rows_all':
            rows = np.array(list(range(1, ns)) + [0], dtype=np.int64)
        elif s['tfeatures'] == 'sparse_rows_unsorted':
            rows = np.array([i for i in range(ns) if i % 2 == 1][::-1] or [0], dtype=np.int64)
            n_f = len(rows)
        tf = np.zeros((n_f, ntl), dtype=s['feat_dtype'])
        for i in range(n_f):
            for c in range(ntl):
                tf[i, c] = ((i * 3 + c * 5 + fill) % 11 + 1) * (0.25 if s['feat_dtype'] == 'float32' else 0.1)
        truth['template_features'] = tf
        save('template_features.npy', tf)
        if s['tfeatures'].startswith('sparse'):
            ind = np.zeros((nt, ntl), dtype=s['ind_dtype'])
            for t in range(nt):
                ind[t] = np.roll(np.arange(nt), -t)[:ntl]
            truth['template_feature_ind'] = ind
            save('template_feature_ind.npy', ind)
        if rows is not None:
            truth['template_feature_rows'] = rows
            save('template_feature_spike_ids.npy', rows)

    # --- spike attributes
    truth['spike_attributes'] = {}
    if s['attrs'] in ('1d', '2d', 'wronglen', 'col', 'row'):
        # attribute names: a free name, and names that merely begin with a reserved word
        # (spike_clusters.npy is reserved, spike_clusters_orig.npy is an attribute)
        aname = {'1d': 'depthx', '2d': 'clusters_orig', 'col': 'times_ms', 'row': 'amplitudes_uv',
                 'wronglen': 'depthx'}[s['attrs']]
        if s['attrs'] == '1d':
            a = np.arange(ns) * 1.5
            truth['spike_attributes'][aname] = a
        elif s['attrs'] == '2d':
            a = np.arange(ns * 2).reshape(ns, 2) * 0.5
            truth['spike_attributes'][aname] = a
        elif s['attrs'] in ('col', 'row'):
            # stored with a singleton dimension: exposed squeezed, like every other array
            a = np.arange(ns) * 2.5
            truth['spike_attributes'][aname] = a
            a = a.reshape((ns, 1) if s['attrs'] == 'col' else (1, ns))
        else:
            a = np.arange(ns + 3) * 1.0
        save('spike_%s.npy' % aname, a)

    # --- raw data
    truth['raw'] = None
    dat_paths = []
    if s['raw']:
        n_raw = s['n_raw']
        raw = ((np.arange(n_raw * n_dat) * 7 + fill) % 201 - 100).astype(s['raw_dtype']).reshape(
            n_raw, n_dat)
        if s['raw_nonfinite'] and np.dtype(s['raw_dtype']).kind == 'f':
            # a float recording with a few non-finite samples (saturation markers, gaps)
            raw[3, 1 % n_dat] = np.inf
            raw[n_raw // 2, 0] = np.nan
            raw[n_raw - 2, n_dat - 1] = -np.inf
        truth['raw'] = raw if s['raw'] != 'missing' else None
        k = int(s['raw_files'])
        cuts = [0] + [n_raw * (i + 1) // k for i in range(k)]
        if s['raw'] == 'missing' and s['raw_format'] in ('npy', 'cbin'):
            dat_paths.append('sim.' + s['raw_format'])      # named in params.py, not on disk
            k = 0
        elif s['raw_format'] == 'npy':
            np.save(os.path.join(d, 'sim.npy'), raw)
            dat_paths.append('sim.npy')
            k = 0
        elif s['raw_format'] == 'cbin':
            import mtscomp
            mtscomp.CONFIG_PATH = type(mtscomp.CONFIG_PATH)(os.path.join(d, 'no-such-mtscomp-config'))
            tmp = os.path.join(d, 'sim_raw_tmp.bin')
            raw.tofile(tmp)
            mtscomp.compress(tmp, os.path.join(d, 'sim.cbin'), os.path.join(d, 'sim.ch'),
                             sample_rate=sr, n_channels=n_dat, dtype=np.dtype(s['raw_dtype']),
                             chunk_duration=7 / sr, n_threads=1, check_after_compress=False, quiet=True)
            os.unlink(tmp)
            dat_paths.append('sim.cbin')
            k = 0
        for i in range(k):
            name = 'sim%d.dat' % i if k > 1 else 'sim.dat'
            if s['raw_dir']:
                # the raw files live in a sub-directory named by a relative path in params.py
                os.makedirs(os.path.join(d, s['raw_dir']), exist_ok=True)
                name = s['raw_dir'] + '/' + name
            if s['raw'] == 'missing':
                dat_paths.append(name)      # named in params.py, not on disk
                continue
            with open(os.path.join(d, name), 'wb') as f:
                f.write(b'\x07' * int(s['raw_offset']))
                f.write(np.ascontiguousarray(raw[cuts[i]:cuts[i + 1]]).tobytes())
            dat_paths.append(name)
    # --- extra TSVs
    for name, t in (s['tsv'] or {}).items():
        with open(os.path.join(d, name), 'w') as f:
            f.write('cluster_id\t%s\n' % t['field'])
            for k_, v in sorted(t['values'].items(), key=lambda kv: int(kv[0])):
                f.write('%s\t%s\n' % (k_, v))
    # --- params
    with open(os.path.join(d, 'params.py'), 'w') as f:
        if len(dat_paths) == 1:
            f.write('dat_path = %r\n' % dat_paths[0])
        else:
            f.write('dat_path = %r\n' % dat_paths)
        f.write('n_channels_dat = %d\n' % n_dat)
        f.write('dtype = %r\n' % s['raw_dtype'])
        f.write('offset = %d\n' % int(s['raw_offset']))
        f.write('sample_rate = %r\n' % sr)
        f.write('hp_filtered = False\n')
    truth['params_path'] = os.path.join(d, 'params.py')
    truth['dir'] = d
    return truth
