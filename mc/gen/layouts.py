# -*- coding: utf-8 -*-
"""Recording layouts: build a real reader for a layout descriptor and return the ground truth.

A layout is a JSON-able dict:
  backend      'flat' | 'npy' | 'array' | 'cbin' | 'cbin_reader'
  dtype        NumPy dtype name
  n_channels   int
  offset       header bytes (flat only)
  parts        list of part lengths (flat: one file per part; others: a single part)
  sample_rate  float (chunk length of flat/array/npy readers = round(600 * sample_rate))
  fill         int, selects the values
  chunk        cbin only: chunk length in samples
  threads      cbin only: n_threads of the mtscomp reader
The ground truth is the array the generator wrote, never something read back through phylib.
"""
import os

import numpy as np

EXTS = ['.dat', '.bin', '.raw', '.mda']


def truth(layout):
    n = int(sum(layout['parts']))
    nc = int(layout['n_channels'])
    dt = np.dtype(layout['dtype'])
    fill = int(layout.get('fill', 0))
    m = n * nc
    # distinct small integers, order depending on the fill; signed types get negative values too
    mult = [1, 3, 5, 7][fill % 4]
    mod = max(m, 1)
    while np.gcd(mult, mod) != 1:
        mult += 2
    v = (mult * np.arange(m) + fill) % mod + 1
    if dt.kind in 'if':
        v = v - (m // 3)
    if dt.kind == 'f':
        v = v * 0.5
    if layout.get('big') and dt.kind in 'iu':
        # values close to the limits of the sample type (a product with a unit factor must not wrap)
        v = v * (np.iinfo(dt).max // (int(np.abs(v).max()) + 1))
    A = v.astype(dt).reshape(n, nc)
    if layout.get('nonfinite') and dt.kind == 'f':
        # a float recording whose last channel holds NaN and infinities (a dead / saturated channel)
        A[:, nc - 1] = [[np.nan, np.inf, -np.inf][i % 3] for i in range(n)]
    return A


def build_reader(d, layout):
    """Create the files of a layout under directory `d`; return (reader, truth array)."""
    import mtscomp
    from phylib.io.traces import get_ephys_reader
    A = truth(layout)
    backend = layout['backend']
    dt = np.dtype(layout['dtype'])
    nc = int(layout['n_channels'])
    sr = float(layout['sample_rate'])
    if backend == 'flat':
        paths = []
        i0 = 0
        off = int(layout.get('offset', 0))
        for k, ln in enumerate(layout['parts']):
            # file names whose lexicographic order is the reverse of the recording order
            p = d / ('rec_%s%d%s' % (chr(ord('z') - k), k, EXTS[(k + int(layout.get('fill', 0))) % len(EXTS)]))
            if len(layout['parts']) >= 2 and (sum(layout['parts']) + len(layout['parts'])) % 3 == 0:
                # one directory per part, the same file name in each (experiment1/continuous.dat, ...)
                os.makedirs(str(d / ('experiment%d' % (k + 1))), exist_ok=True)
                p = d / ('experiment%d' % (k + 1)) / ('continuous' + EXTS[int(layout.get('fill', 0)) % len(EXTS)])
            with open(p, 'wb') as f:
                f.write(b'\xab' * off)
                f.write(np.ascontiguousarray(A[i0:i0 + ln]).tobytes())
            paths.append(p)
            i0 += ln
        if int(layout.get('fill', 0)) % 3 == 1:
            paths = [str(p) for p in paths]          # file names given as strings
        elif int(layout.get('fill', 0)) % 3 == 2:
            paths = tuple(paths)                     # ... or the list as a tuple
        if off == 0 and int(layout.get('fill', 0)) % 2 == 0:
            # no header: the offset argument is left to its default in one half of the cases
            reader = get_ephys_reader(paths, n_channels_dat=nc, dtype=dt, sample_rate=sr)
        else:
            reader = get_ephys_reader(paths, n_channels_dat=nc, dtype=dt, offset=off, sample_rate=sr)
        return reader, A
    assert len(layout['parts']) == 1
    if backend == 'array':
        return get_ephys_reader(A.copy(), sample_rate=sr, n_channels_dat=nc, dtype=dt, offset=0), A
    if backend == 'npy':
        p = d / 'rec.npy'
        np.save(p, A)
        arg = [[p], p, str(p), [str(p)]][layout.get('fill', 0) % 4]
        return get_ephys_reader(arg, sample_rate=sr, n_channels_dat=nc, dtype=dt, offset=0), A
    if backend in ('cbin', 'cbin_reader'):
        mtscomp.CONFIG_PATH = d / 'no-such-mtscomp-config'
        raw = d / 'rec.bin'
        A.tofile(raw)
        out = d / 'rec.cbin'
        meta = d / 'rec.ch'
        chunk = int(layout.get('chunk', 1))
        mtscomp.compress(raw, out, meta, sample_rate=sr, n_channels=nc, dtype=dt,
                         chunk_duration=chunk / sr, n_threads=1, check_after_compress=False,
                         quiet=True)
        raw.unlink()
        if backend == 'cbin':
            return get_ephys_reader(out, sample_rate=sr, n_channels_dat=nc, dtype=dt), A
        r = mtscomp.Reader(n_threads=int(layout.get('threads', 1)), quiet=True)
        r.open(out, meta)
        return get_ephys_reader(r, sample_rate=sr, n_channels_dat=nc, dtype=dt), A
    raise ValueError(backend)


def close_reader(reader):
    """Release file handles so the scratch directory can be removed."""
    try:
        r = getattr(reader, 'reader', None)
        if r is not None:
            r.close()
    except Exception:
        pass
    for m in getattr(reader, '_mmaps', []) or []:
        try:
            m._mmap.close()
        except Exception:
            pass
