# -*- coding: utf-8 -*-
"""pymc core: bounded exhaustive exploration of phylib, shared machinery.

Every check is `./check <ID> --tier quick|thorough` (or `--replay <file>`).
A property module (mc/props/cXX.py) exposes

    explore(ctx)        -- enumerate its finite scope completely, run the real
                           phylib code on every case, compare with the reference
                           model, record counts / violations in ctx
    replay(record)      -- re-execute one violation record without the explorer,
                           return the list of violation records it reproduces

This module owns: locating phylib (the working tree of /repo or $PHYLIB_SRC),
sharding over worker processes, scratch directories, result accumulation,
violation signatures, known findings, replay files, fresh-process
reproduction, evidence files.
"""
import atexit
import collections
import hashlib
import importlib
import json
import multiprocessing as mp
import os
import shutil
import signal
import subprocess
import sys
import tempfile
import time
import traceback

VERIF = os.path.dirname(os.path.dirname(os.path.abspath(__file__)))
REPO = os.environ.get('PHYLIB_SRC') or '/repo'

# Environment that must be fixed before phylib / tqdm / numpy are imported.
os.environ.setdefault('TQDM_DISABLE', '1')
os.environ.setdefault('PHYLIB_VERIF', '1')
os.environ.setdefault('OMP_NUM_THREADS', '1')
os.environ.setdefault('OPENBLAS_NUM_THREADS', '1')
os.environ.setdefault('MKL_NUM_THREADS', '1')


# ---------------------------------------------------------------------------
# phylib location
# ---------------------------------------------------------------------------

class PhylibImportError(Exception):
    pass


def import_phylib(*modules):
    """Import phylib from the tree under test and make sure that is what we got."""
    src = os.path.realpath(REPO)
    if sys.path[0] != src:
        sys.path.insert(0, src)
    import logging
    try:
        import phylib
        for m in modules:
            importlib.import_module(m)
    except Exception as e:  # the tree under test does not import
        raise PhylibImportError('%s: %s' % (type(e).__name__, e))
    got = os.path.realpath(os.path.dirname(os.path.dirname(phylib.__file__)))
    if got != src:
        raise RuntimeError('phylib imported from %s, expected %s' % (got, src))
    logging.getLogger('phylib').setLevel(logging.CRITICAL + 1)
    logging.getLogger('mtscomp').setLevel(logging.CRITICAL + 1)
    return phylib


def phylib_rev():
    try:
        out = subprocess.run(['git', '-C', REPO, 'rev-parse', '--short', 'HEAD'],
                             capture_output=True, text=True).stdout.strip()
        dirty = subprocess.run(['git', '-C', REPO, 'status', '--porcelain', '--untracked-files=no'],
                               capture_output=True, text=True).stdout.strip()
        return out + ('+dirty' if dirty else '')
    except Exception:
        return 'unknown'


def too_many_timeouts(n=3):
    """True once this (worker) process has seen n calls that did not return: the remaining cases
    are then skipped (the run is reported as a violation and as not exhaustive anyway)."""
    return time_limit.count >= n


# ---------------------------------------------------------------------------
# line coverage of the code under test (vacuity guard, reported in the evidence)
# ---------------------------------------------------------------------------

_LINES = set()          # (relative file, line) executed in this process since the last drain
_MON = {'on': False}


def enable_line_monitoring():
    """Record which lines of the tree under test run (sys.monitoring; every location disables
    itself after its first hit, so the cost is negligible)."""
    if _MON['on'] or not hasattr(sys, 'monitoring'):
        return
    mon = sys.monitoring
    root = os.path.join(os.path.realpath(REPO), 'phylib') + os.sep
    try:
        mon.use_tool_id(mon.COVERAGE_ID, 'pymc')
    except ValueError:
        return

    def on_line(code, line):
        fn = code.co_filename
        if fn.startswith(root):
            _LINES.add((fn[len(root) - 7:], line))       # 'phylib/...'
        return mon.DISABLE
    mon.register_callback(mon.COVERAGE_ID, mon.events.LINE, on_line)
    mon.set_events(mon.COVERAGE_ID, mon.events.LINE)
    _MON['on'] = True


def drain_lines():
    out = set(_LINES)
    _LINES.clear()
    return out


def function_lines(relpath):
    """{function qualname: set of executable line numbers} of a source file of the tree under test."""
    path = os.path.join(os.path.realpath(REPO), relpath)
    try:
        code = compile(open(path).read(), path, 'exec')
    except Exception:
        return {}
    out = {}

    def walk(co, prefix):
        for c in co.co_consts:
            if hasattr(c, 'co_code'):
                name = (prefix + '.' if prefix else '') + c.co_name
                if c.co_name not in ('<listcomp>', '<genexpr>', '<dictcomp>', '<setcomp>', '<lambda>'):
                    lines = set(l for _, _, l in c.co_lines() if l is not None and l != c.co_firstlineno)
                    out.setdefault(name, set()).update(lines)
                    walk(c, name)
                else:
                    walk(c, prefix)
    walk(code, '')
    return out


def anchor_coverage(prop, executed):
    """Per anchored file of a property: fraction of function lines executed, functions never entered."""
    anchors = []
    try:
        for l in open(os.path.join(VERIF, 'properties.jsonl')):
            p = json.loads(l)
            if p['id'] == prop:
                anchors = p['anchors']['files']
    except Exception:
        pass
    res = {}
    for rel in anchors:
        fl = function_lines(rel)
        hit = set(l for f, l in executed if f == rel)
        tot = set().union(*fl.values()) if fl else set()
        never = sorted(n for n, ls in fl.items() if ls and not (ls & hit))
        res[rel] = {'function_lines': len(tot), 'executed': len(tot & hit),
                    'fraction': round(len(tot & hit) / float(len(tot)), 3) if tot else 0.0,
                    'functions_never_entered': never[:60]}
    return res


# ---------------------------------------------------------------------------
# scratch directories
# ---------------------------------------------------------------------------

_SCRATCH_ROOT = None


def scratch_root():
    global _SCRATCH_ROOT
    if _SCRATCH_ROOT is None:
        base = '/dev/shm' if os.path.isdir('/dev/shm') and os.access('/dev/shm', os.W_OK) \
            else tempfile.gettempdir()
        _SCRATCH_ROOT = tempfile.mkdtemp(prefix='phyverif-%d-' % os.getpid(), dir=base)
        atexit.register(_cleanup_scratch, os.getpid(), _SCRATCH_ROOT)
    return _SCRATCH_ROOT


def _cleanup_scratch(pid, root):
    if os.getpid() == pid:
        shutil.rmtree(root, ignore_errors=True)


class Scratch(object):
    """A fresh directory per execution, removed afterwards."""
    _n = 0

    def __init__(self):
        Scratch._n += 1
        self.path = os.path.join(scratch_root(), 'w%d-%d' % (os.getpid(), Scratch._n))

    def __enter__(self):
        os.makedirs(self.path)
        from pathlib import Path
        return Path(self.path)

    def __exit__(self, *a):
        shutil.rmtree(self.path, ignore_errors=True)


# ---------------------------------------------------------------------------
# JSON helpers
# ---------------------------------------------------------------------------

def jsonable(x, depth=0):
    """Best-effort conversion of an observation to something json.dump accepts."""
    import numpy as np
    if depth > 8:
        return repr(x)
    if x is None or isinstance(x, (bool, int, str)):
        return x
    if isinstance(x, float):
        if x != x:
            return 'nan'
        if x in (float('inf'), float('-inf')):
            return 'inf' if x > 0 else '-inf'
        return x
    if isinstance(x, np.ndarray):
        if x.size > 64:
            return {'ndarray': 'shape=%s dtype=%s sha1=%s' % (
                x.shape, x.dtype, hashlib.sha1(np.ascontiguousarray(x).tobytes()).hexdigest()[:12])}
        return {'ndarray': jsonable(x.tolist(), depth + 1), 'dtype': str(x.dtype),
                'shape': list(x.shape)}
    if isinstance(x, np.generic):
        return jsonable(x.item(), depth + 1)
    if isinstance(x, complex):
        return repr(x)
    if isinstance(x, dict):
        return {str(k): jsonable(v, depth + 1) for k, v in x.items()}
    if isinstance(x, (list, tuple, set, frozenset)):
        return [jsonable(v, depth + 1) for v in x]
    if isinstance(x, slice):
        return 'slice(%r,%r,%r)' % (x.start, x.stop, x.step)
    if isinstance(x, BaseException):
        return {'exception': type(x).__name__, 'message': str(x)[:200]}
    return repr(x)[:200]


# ---------------------------------------------------------------------------
# result accumulation
# ---------------------------------------------------------------------------

MAX_SAMPLES = 6


class Acc(object):
    """Counts, outcome classes, samples and violations of a (partial) exploration.

    Picklable and mergeable, so worker processes return one per chunk.
    """

    def __init__(self):
        self.states = 0          # configurations / canonical states built
        self.transitions = 0     # operations applied and compared with the reference
        self.nontrivial = 0      # distinct transitions that are non-trivial by the module's rule
        self.classes = collections.Counter()   # outcome classes (vacuity guard)
        self.samples = []
        self.violations = {}     # signature -> {'count': n, 'record': smallest record}
        self.extra = collections.Counter()     # module-specific integer counters
        self.lines = set()       # (file, line) of the tree under test that were executed

    # -- recording ---------------------------------------------------------
    def state(self, n=1):
        self.states += n

    def step(self, nontrivial=False, cls=None, n=1):
        self.transitions += n
        if nontrivial:
            self.nontrivial += n
        if cls is not None:
            self.classes[cls] += n

    def sample(self, s):
        if len(self.samples) < MAX_SAMPLES:
            self.samples.append(jsonable(s))

    def violation(self, signature, record, order=0):
        """Record a violation. `order` sorts cases simplest-first across shards."""
        v = self.violations.get(signature)
        if v is None:
            self.violations[signature] = {'count': 1, 'order': order, 'record': record}
        else:
            v['count'] += 1
            if order < v['order']:
                v['order'] = order
                v['record'] = record

    # -- merging -----------------------------------------------------------
    def merge(self, other):
        self.states += other.states
        self.transitions += other.transitions
        self.nontrivial += other.nontrivial
        self.classes.update(other.classes)
        self.extra.update(other.extra)
        self.lines |= other.lines
        for s in other.samples:
            if len(self.samples) < MAX_SAMPLES:
                self.samples.append(s)
        for sig, v in other.violations.items():
            mine = self.violations.get(sig)
            if mine is None:
                self.violations[sig] = dict(v)
            else:
                mine['count'] += v['count']
                if v['order'] < mine['order']:
                    mine['order'] = v['order']
                    mine['record'] = v['record']
        return self


def make_record(prop, subcheck, signature, case=None, op=None, trace=None,
                expected=None, observed=None, **extra):
    r = {'property': prop, 'subcheck': subcheck, 'signature': signature}
    if case is not None:
        r['case'] = jsonable(case)
    if op is not None:
        r['op'] = jsonable(op)
    if trace is not None:
        r['trace'] = jsonable(trace)
    r['expected'] = jsonable(expected)
    r['observed'] = jsonable(observed)
    for k, v in extra.items():
        r[k] = jsonable(v)
    return r


# ---------------------------------------------------------------------------
# sharded execution
# ---------------------------------------------------------------------------

def _chunks(items, size):
    buf = []
    for it in items:
        buf.append(it)
        if len(buf) >= size:
            yield buf
            buf = []
    if buf:
        yield buf


def _uncaught(fn, e, acc, order, case=None, trace=None, prop=None):
    """An exception escaped a property module. If it was raised inside the tree under test it is a
    violation (the code crashed on an input of the scope); otherwise it is a harness bug, which
    must not be silent either."""
    root = os.path.join(os.path.realpath(REPO), 'phylib') + os.sep
    tb = e.__traceback__
    last = None
    while tb is not None:        # the deepest frame that lies in the tree under test
        if tb.tb_frame.f_code.co_filename.startswith(root):
            last = tb
        tb = tb.tb_next
    fname = last.tb_frame.f_code.co_filename if last is not None else ''
    text = ''.join(traceback.format_exception(type(e), e, e.__traceback__))[-1500:]
    if fname.startswith(root):
        prop = prop or (getattr(fn, '__module__', '') or '').split('.')[-1][:3].upper()
        sig = '%s/uncaught/%s/%s:%s' % (prop, type(e).__name__, fname[len(root) - 7:],
                                        last.tb_frame.f_code.co_name)
        acc.violation(sig, make_record(prop, 'uncaught', sig, case=case, trace=trace,
                                       expected='no exception from the code under test',
                                       observed=text), order)
    else:
        sig = 'HARNESS/%s' % type(e).__name__
        acc.violation(sig, make_record('?', 'harness', sig, case=case, trace=trace, observed=text), order)


_RECENT = collections.deque(maxlen=40)     # (order, case) run by this worker process, most recent last


def _run_chunk(args):
    fn, chunk = args
    acc = Acc()
    enable_line_monitoring()
    for pos, (order, case) in enumerate(chunk):
        if _CUR is not None:
            _CUR.value = pos
        if too_many_timeouts():
            acc.extra['cases_skipped_after_timeouts'] += 1
            continue
        before = set(acc.violations)
        try:
            fn(case, acc, order)
        except PhylibImportError:
            raise
        except Exception as e:
            _uncaught(fn, e, acc, order, case=case)
        for sig in set(acc.violations) - before:
            # what this process ran just before: if the case alone does not reproduce the violation in
            # a fresh process, it is replayed after this history (state kept by the code under test
            # between calls - module globals, class attributes, caches - is then reproduced too)
            acc.violations[sig]['record']['process_history'] = {
                'fn': '%s:%s' % (fn.__module__, fn.__name__),
                'cases': [jsonable(c) for _, c in _RECENT]}
        _RECENT.append((order, case))
    acc.lines = drain_lines()
    return acc



# ---------------------------------------------------------------------------
# worker pool that survives the death of a worker
# ---------------------------------------------------------------------------
# A case that makes the interpreter die (a segmentation fault in code reached through the tree
# under test, e.g. an array over a memory map that was closed) would hang multiprocessing.Pool
# forever. Here the parent knows which item of which chunk every worker is running (a shared
# counter written before each item), so a death is attributed to that item: it becomes a
# violation <ID>/crash/<signal> with the item as its replayable case, the worker is replaced
# and the rest of the chunk is run without the item.

_CUR = None          # in a worker: shared index of the item being run
MAX_CRASHES = 12


def _pool_worker(conn, cur):
    global _CUR
    _CUR = cur
    while True:
        try:
            msg = conn.recv()
        except EOFError:
            break
        if msg is None:
            break
        tid, func, args = msg
        cur.value = -1
        try:
            res = ('ok', func(args))
        except BaseException as e:           # PhylibImportError and harness failures travel back
            res = ('exc', e)
        try:
            conn.send((tid, res))
        except Exception as e:
            conn.send((tid, ('exc', RuntimeError('unpicklable result: %r' % (e,)))))


class CrashPool(object):
    def __init__(self, jobs):
        self.jobs = jobs
        self.mp = mp.get_context('fork')
        self.workers = []        # dicts: proc, conn, cur, task
        self.crashes = 0

    def _spawn(self):
        a, b = self.mp.Pipe()
        cur = self.mp.Value('q', -1, lock=False)
        proc = self.mp.Process(target=_pool_worker, args=(b, cur), daemon=True)
        proc.start()
        b.close()
        w = {'proc': proc, 'conn': a, 'cur': cur, 'task': None}
        self.workers.append(w)
        return w

    def close(self):
        for w in self.workers:
            try:
                w['conn'].send(None)
            except Exception:
                pass
        for w in self.workers:
            w['proc'].join(5)
            if w['proc'].is_alive():
                w['proc'].kill()
        self.workers = []

    def imap(self, func, work, ordered=False):
        """Yield func(args) for every args of `work`. A task is (func, (fn, items)); when a worker
        dies, the item it was running is reported through the Acc of the task's result."""
        from multiprocessing.connection import wait
        work = list(work)
        pending = collections.deque(range(len(work)))
        tasks = {i: {'args': work[i], 'crashed': []} for i in pending}
        done = {}
        next_out = 0
        n_done = 0
        self.close()      # fresh workers per sweep: they see the module globals as they are now
        while len(self.workers) < min(self.jobs, len(work)):
            self._spawn()
        while n_done < len(work):
            for w in self.workers:
                if w['task'] is None and pending:
                    tid = pending.popleft()
                    w['task'] = tid
                    w['cur'].value = -1
                    w['conn'].send((tid, func, tasks[tid]['args']))
            busy = [w for w in self.workers if w['task'] is not None]
            ready = wait([w['conn'] for w in busy] + [w['proc'].sentinel for w in busy])
            for w in busy:
                if w['conn'] in ready or w['proc'].sentinel in ready:
                    msg = None
                    try:
                        if w['conn'].poll():
                            msg = w['conn'].recv()
                    except (EOFError, OSError):
                        msg = None
                    tid = w['task']
                    if msg is not None:
                        w['task'] = None
                        kind, val = msg[1]
                        if kind == 'exc':
                            raise val
                        done[tid] = self._finish(func, tasks[tid], val)
                        n_done += 1
                    elif not w['proc'].is_alive():
                        # the worker died while running item cur of task tid
                        w['proc'].join()
                        code = w['proc'].exitcode
                        idx = int(w['cur'].value)
                        self.workers.remove(w)
                        self.crashes += 1
                        t = tasks[tid]
                        fn, items = t['args']
                        items = list(items)
                        if 0 <= idx < len(items) and self.crashes <= MAX_CRASHES:
                            t['crashed'].append((items[idx], items[:idx], code))
                            t['args'] = (fn, items[:idx] + items[idx + 1:])
                            pending.appendleft(tid)
                        else:
                            t['crashed'].append((None, items, code))
                            t['args'] = (fn, [])
                            pending.appendleft(tid)
                        self._spawn()
            if ordered:
                while next_out in done:
                    yield done.pop(next_out)
                    next_out += 1
            else:
                for tid in list(done):
                    yield done.pop(tid)

    def _finish(self, func, task, val):
        if not task['crashed']:
            return val
        acc = val[0] if isinstance(val, tuple) else val
        fn = task['args'][0]
        prop = CURRENT.get('prop') or '?'
        for item, before, code in task['crashed']:
            name = 'exit-%s' % code
            if code is not None and code < 0:
                try:
                    name = signal.Signals(-code).name
                except ValueError:
                    name = 'signal-%d' % -code
            sig = '%s/crash/%s' % (prop, name)
            bfs_mode = func is _expand_chunk
            if item is None:
                rec = make_record(prop, 'crash', sig, case=None,
                                  observed='a worker process died (%s); the item could not be attributed'
                                  % name)
            elif bfs_mode:
                rec = make_record(prop, 'crash', sig, case={'bfs_state': jsonable(item[0])},
                                  trace=jsonable(item[1]), expected='the interpreter survives',
                                  observed='the worker process died (%s) while expanding this state' % name)
                rec['process_history'] = {'fn': '%s:%s' % (fn.__module__, fn.__name__), 'mode': 'bfs',
                                          'tier': CURRENT.get('tier'), 'seed': CURRENT.get('seed'),
                                          'cases': [jsonable(c) for c in before[-25:]] + [jsonable(item)]}
            else:
                rec = make_record(prop, 'crash', sig, case=item[1], expected='the interpreter survives',
                                  observed='the worker process died (%s) while running this case' % name)
                rec['process_history'] = {'fn': '%s:%s' % (fn.__module__, fn.__name__),
                                          'cases': [jsonable(c) for _, c in before[-40:]]}
            acc.violation(sig, rec, item[0] if (item is not None and not bfs_mode) else 0)
            acc.extra['worker_deaths'] += 1
        return val


class Ctx(object):
    def __init__(self, prop, tier, seed, jobs):
        self.prop = prop
        self.tier = tier
        self.seed = seed
        self.jobs = jobs
        self.acc = Acc()
        self.bounds = {}
        self.sweeps = {}
        self.rule = ''
        self.assumptions = []
        self.exhaustive = True
        self.notes = {}
        self.t0 = time.time()
        self._pool = None
        CURRENT.update(tier=tier, seed=seed, prop=prop)
        scratch_root()   # created before forking so that workers share it and the parent removes it
        enable_line_monitoring()

    @property
    def thorough(self):
        return self.tier == 'thorough'

    def pool(self):
        if self._pool is None and self.jobs > 1:
            self._pool = CrashPool(self.jobs)
        return self._pool

    def close(self):
        if self._pool is not None:
            self._pool.close()
            self._pool = None

    def run_cases(self, fn, cases, chunk=None, sweep=None):
        """Run fn(case, acc, order) on every case of an iterable, sharded over workers.

        `fn` must be a module-level function. Returns the merged Acc of this sweep
        (also merged into ctx.acc).
        """
        cases = list(cases)
        n = len(cases)
        indexed = list(enumerate(cases))
        sub = Acc()
        if chunk is None:
            chunk = max(1, min(200, n // (self.jobs * 8) or 1))
        work = [(fn, c) for c in _chunks(indexed, chunk)]
        if self.jobs > 1 and work:
            for acc in self.pool().imap(_run_chunk, work):
                sub.merge(acc)
        else:
            for w in work:
                sub.merge(_run_chunk(w))
        if sweep:
            self.sweeps[sweep] = {'cases': n, 'states': sub.states, 'transitions': sub.transitions,
                                  'nontrivial': sub.nontrivial,
                                  'wall_s': round(time.time() - self.t0, 2)}
        self.acc.merge(sub)
        return sub


def replay_case(run_case, record, restrict=('only_op', 'only_prog', 'only_hist', 'only')):
    """Re-execute the case of a violation record: first restricted to the recorded operation,
    and, if that does not show the recorded signature (the violation depends on the operations
    applied before it to the same object), the whole case in its original order."""
    case = record['case']
    order = int(record.get('order', 0) or 0)
    acc = Acc()
    run_case(case, acc, order)
    if record['signature'] not in acc.violations and any(k in case for k in restrict):
        acc = Acc()
        run_case({k: v for k, v in case.items() if k not in restrict}, acc, order)
    return [dict(v['record'], signature=sig) for sig, v in acc.violations.items()]


class ChoiceDivergence(Exception):
    pass


class CaseTimeout(BaseException):
    """The code under test did not return within the horizon given to one call. (BaseException so
    that a blanket `except Exception` in the code under test cannot swallow it.)"""


class time_limit(object):
    """Horizon for one call into the code under test (loops that a broken change can make
    endless: retry loops, chunk iterators, the correlogram shift loop). SIGALRM based, so only
    usable in the main thread of a (worker) process; a no-op elsewhere."""

    def __init__(self, seconds):
        self.seconds = seconds
        self.active = False

    count = 0       # timeouts seen in this process

    def _handler(self, signum, frame):
        time_limit.count += 1
        raise CaseTimeout('no result within %ss' % self.seconds)

    def __enter__(self):
        import signal
        import threading
        if threading.current_thread() is threading.main_thread():
            self.old = signal.signal(signal.SIGALRM, self._handler)
            signal.setitimer(signal.ITIMER_REAL, self.seconds)
            self.active = True
        return self

    def __exit__(self, *a):
        if self.active:
            import signal
            signal.setitimer(signal.ITIMER_REAL, 0)
            signal.signal(signal.SIGALRM, self.old)
        return False


class Choices(object):
    """Choice oracle of the stateless (env mode) explorer: replays a prefix, then takes
    alternative 0; records (choice, menu size, label) at every choice point."""

    def __init__(self, prefix, labels=None):
        self.prefix = list(prefix)
        self.labels = labels
        self.trace = []

    def choose(self, n, label):
        i = len(self.trace)
        c = self.prefix[i] if i < len(self.prefix) else 0
        if c >= n:
            raise ChoiceDivergence('choice %d out of range %d at point %d (%s)' % (c, n, i, label))
        if self.labels is not None and i < len(self.labels) and self.labels[i] != label:
            raise ChoiceDivergence('replay diverged at point %d: %s != %s' % (i, label, self.labels[i]))
        self.trace.append((c, n, label))
        return c

    @property
    def schedule(self):
        return [c for c, _, _ in self.trace]


def explore_env(run, on_execution, first=None):
    """Enumerate every schedule of environment answers of `run(choices)` (depth-first, stateless).

    `run` executes the real code to completion, asking choices.choose(n, label) at each owned
    seam. Every alternative at every choice point is explored; returns the number of executions."""
    stack = [([], None)] if first is None else [(list(first), None)]
    n_exec = 0
    while stack:
        prefix, labels = stack.pop()
        ch = Choices(prefix, labels)
        result = run(ch)
        n_exec += 1
        if len(ch.trace) < len(prefix):
            raise ChoiceDivergence('execution consumed %d choices, prefix has %d' % (
                len(ch.trace), len(prefix)))
        on_execution(ch, result)
        labs = [l for _, _, l in ch.trace]
        for i in range(len(prefix), len(ch.trace)):
            for alt in range(1, ch.trace[i][1]):
                stack.append((ch.schedule[:i] + [alt], labs[:i]))
    return n_exec


_RECENT_BFS = collections.deque(maxlen=25)
CURRENT = {}     # tier and seed of the exploration (set by Ctx before forking)


def _expand_chunk(args):
    fn, chunk = args
    acc = Acc()
    succ = []
    enable_line_monitoring()
    for pos, (key, hist) in enumerate(chunk):
        if _CUR is not None:
            _CUR.value = pos
        before = set(acc.violations)
        try:
            succ.extend(fn(key, hist, acc))
        except PhylibImportError:
            raise
        except Exception as e:
            _uncaught(fn, e, acc, len(hist), trace=hist)
        for sig in set(acc.violations) - before:
            # as in _run_chunk: the expansions this worker ran just before, for a faithful replay
            acc.violations[sig]['record']['process_history'] = {
                'fn': '%s:%s' % (fn.__module__, fn.__name__), 'mode': 'bfs',
                'tier': CURRENT.get('tier'), 'seed': CURRENT.get('seed'),
                'cases': [jsonable(c) for c in _RECENT_BFS] + [jsonable((key, hist))]}
        _RECENT_BFS.append((key, hist))
    acc.lines = drain_lines()
    return acc, succ


def bfs(ctx, expand, roots, max_depth=None, sweep=None, chunk=64):
    """Explicit-state breadth-first search, sharded per level.

    `roots` is a list of (canonical key, history). `expand(key, history, acc)` (module-level)
    rebuilds the real objects by replaying `history`, applies every enabled event, checks the
    oracle on each (recording steps / violations in acc) and returns the successors as
    (key, history) pairs; violating transitions must not be returned. The parent owns the seen
    set, so a canonical state is expanded once, along the first (shortest) history reaching it.
    Runs to a fixpoint unless max_depth is given. Returns (states, max depth reached, fixpoint?).
    """
    seen = set(k for k, _ in roots)
    frontier = list(roots)
    depth = 0
    sub = Acc()
    sub.states = len(seen)
    fixpoint = False
    while frontier:
        if max_depth is not None and depth >= max_depth:
            break
        work = [(expand, c) for c in _chunks(frontier, chunk)]
        nxt = []
        if ctx.jobs > 1 and work:
            results = ctx.pool().imap(_expand_chunk, work, ordered=True)
        else:
            results = (_expand_chunk(w) for w in work)
        for acc, succ in results:
            sub.merge(acc)
            for key, hist in succ:
                if key not in seen:
                    seen.add(key)
                    nxt.append((key, hist))
                else:
                    sub.extra['bfs_merged'] += 1
        sub.states += len(nxt)
        frontier = nxt
        depth += 1
    else:
        fixpoint = True
    if sweep:
        ctx.sweeps[sweep] = {'cases': len(seen), 'states': len(seen), 'transitions': sub.transitions,
                             'nontrivial': sub.nontrivial, 'depth': depth, 'fixpoint': fixpoint,
                             'wall_s': round(time.time() - ctx.t0, 2)}
    sub.states = len(seen)
    ctx.acc.merge(sub)
    return len(seen), depth, fixpoint


# ---------------------------------------------------------------------------
# known findings, replay files, evidence
# ---------------------------------------------------------------------------

def load_known():
    path = os.path.join(VERIF, 'known_findings.json')
    if not os.path.exists(path):
        return []
    with open(path) as f:
        return json.load(f).get('findings', [])


def known_map(prop):
    return {f['signature']: f for f in load_known()
            if f.get('property') == prop and f.get('status') == 'known'}


def write_replay(prop, record):
    sig = record['signature']
    h = hashlib.sha1(sig.encode()).hexdigest()[:10]
    d = os.path.join(os.environ.get('VERIF_REPLAY_DIR') or os.path.join(VERIF, 'replays'), prop)
    os.makedirs(d, exist_ok=True)
    path = os.path.join(d, '%s.json' % h)
    with open(path, 'w') as f:
        json.dump(record, f, indent=1, sort_keys=True)
    return path


def reproduce_in_fresh_process(prop, path):
    """Re-run one replay file in a fresh interpreter; True iff it violates again."""
    env = dict(os.environ)
    env['VERIF_NO_EVIDENCE'] = '1'
    p = subprocess.run([sys.executable, '-m', 'mc.cli', prop, '--replay', path, '--raw'],
                       cwd=VERIF, env=env, capture_output=True, text=True, timeout=600)
    return p.returncode == 1, (p.stdout + p.stderr)[-800:]


def died_in_child(body):
    """Run body() in a forked child; return the signal name / exit code if the child died, else None."""
    sys.stdout.flush()
    pid = os.fork()
    if pid == 0:
        try:
            devnull = os.open(os.devnull, os.O_WRONLY)
            os.dup2(devnull, 1)
            os.dup2(devnull, 2)
            body()
        except BaseException:
            os._exit(0)
        os._exit(0)
    _, status = os.waitpid(pid, 0)
    if os.WIFSIGNALED(status):
        try:
            return signal.Signals(os.WTERMSIG(status)).name
        except ValueError:
            return 'signal-%d' % os.WTERMSIG(status)
    return None


def validate_evidence(path):
    """Validate with the tooling venv's jsonschema if available (advisory)."""
    schema = '/root/.vp/EVIDENCE.schema.json'
    vt = shutil.which('python3-vt')
    if not (vt and os.path.exists(schema)):
        return None
    code = ("import json,sys,jsonschema;"
            "jsonschema.validate(json.load(open(sys.argv[1])),json.load(open(sys.argv[2])))")
    p = subprocess.run([vt, '-c', code, path, schema], capture_output=True, text=True)
    return p.returncode == 0 or p.stderr[-400:]


def write_evidence(ctx, n_violations, known_seen, unreproduced, extra_cov=None):
    acc = ctx.acc
    cov = {
        'states': acc.states,
        'transitions': acc.transitions,
        'traces_validated_against_impl': acc.transitions,
        'evaluations': acc.transitions,
        'distinct_nontrivial': acc.nontrivial,
        'rule': ctx.rule,
        'exhaustive': bool(ctx.exhaustive),
        'bounds': jsonable(ctx.bounds),
        'sweeps': jsonable(ctx.sweeps),
        'outcome_classes': {str(k): v for k, v in sorted(acc.classes.items(), key=lambda kv: str(kv[0]))},
        'counters': {str(k): v for k, v in sorted(acc.extra.items())},
        'samples': acc.samples or ['(none)'],
        'known_findings_seen': known_seen,
        'unreproduced': unreproduced,
        'phylib_rev': phylib_rev(),
        'phylib_src': REPO,
        'jobs': ctx.jobs,
    }
    acc.lines |= drain_lines()
    cov['anchor_line_coverage'] = anchor_coverage(ctx.prop, acc.lines)
    cov.update(jsonable(ctx.notes))
    if extra_cov:
        cov.update(extra_cov)
    ev = {
        'property_id': ctx.prop,
        'tier': ctx.tier,
        'seed': int(ctx.seed),
        'level': 'model_checking',
        'coverage': cov,
        'assumptions': ctx.assumptions,
        'wall_s': round(time.time() - ctx.t0, 2),
        'violations': int(n_violations),
    }
    if os.environ.get('VERIF_NO_EVIDENCE'):
        return None
    d = os.path.join(VERIF, 'evidence')
    os.makedirs(d, exist_ok=True)
    path = os.path.join(d, '%s.json' % ctx.prop)
    tmp = path + '.tmp%d' % os.getpid()
    with open(tmp, 'w') as f:
        json.dump(ev, f, indent=1, sort_keys=True)
    os.replace(tmp, path)
    return path
