# -*- coding: utf-8 -*-
"""Shared machinery of C11 / C12 (and the merged inputs of C14): generate k probe directories
with the dataset generator, run the real Merger, read the output files back with np.load and
return everything an oracle needs. The reference merge is recomputed from the generator's
arrays, never through phylib."""
import csv
import os
import shutil

import numpy as np

from .. import core
from ..gen import dsgen


def imports():
    core.import_phylib('phylib.io.merge')


def probe_spec(p, fill=0):
    """A probe descriptor (small dict) -> dsgen spec. All fields optional."""
    nsp = p.get('n_spikes', 3)
    nt = p.get('n_templates', 3)
    nc = p.get('n_channels', 3)
    spec = {
        'n_spikes': nsp, 'n_templates': nt, 'n_channels': nc, 'nsw': 3,
        'spike_samples': p.get('times'),
        'spike_templates': p.get('templates'),
        'spike_clusters': p.get('clusters', 'same'),
        'id_dtype': p.get('id_dtype', 'int32'),
        'time_dtype': p.get('time_dtype', 'uint64'),
        'amp_base': p.get('amp_base', 1.0),
        'geometry': p.get('geometry', 'grid'),
        'channel_map': p.get('channel_map', 'identity'),
        'whitening': p.get('whitening', 'mixing'),
        'whitening_inv': p.get('whitening_inv', True),
        'similar': p.get('similar', True),
        'features': 'sparse', 'tfeatures': 'sparse', 'ind_dtype': p.get('ind_dtype', 'uint32'),
        'n_loc': 2, 'n_tloc': 2,     # index tables have the same width in every probe
        'ind_high': p.get('ind_high', False),
        'raw': False, 'tsv': p.get('tsv', {}), 'fill': fill + p.get('fill', 0),
        'sample_rate': p.get('sample_rate', 100.0),
        'template_dtype': p.get('template_dtype', 'float32'),
    }
    return spec


def read_tsv(path):
    if not os.path.exists(path):
        return None
    with open(path, newline='') as f:
        rows = list(csv.reader(f, delimiter='\t'))
    try:
        return rows[0], {int(r[0]): r[1] for r in rows[1:]}
    except ValueError:      # not a per-cluster table (e.g. probes.description.tsv)
        return rows[0], {i: r for i, r in enumerate(rows[1:])}


def run_merge(probes, fill=0):
    """Returns dict(truths, out (arrays by file name), tsv, model attrs, input hashes before/after,
    new input files, exception)."""
    from phylib.io.merge import Merger
    res = {'exception': None}
    with core.Scratch() as d:
        # a warm-up merge of two other probes in the same process: a Merger must not carry state
        # (offset lists, metadata dictionaries) from one merge to the next
        try:
            wdirs = []
            for i, wp in enumerate(({'n_spikes': 3, 'times': [0, 1, 2], 'templates': [0, 2, 1],
                                     'clusters': [6, 0, 6], 'n_templates': 3,
                                     'tsv': {'cluster_KSLabel.tsv': {'field': 'KSLabel',
                                                                     'values': {6: 'good'}}}},
                                    {'n_spikes': 2, 'times': [1, 1], 'templates': [1, 0],
                                     'n_templates': 2})):
                wd = d / ('warm%d' % i)
                dsgen.make_dataset(wd, probe_spec(wp, fill))
                wdirs.append(wd)
            wm = Merger(wdirs, d / 'warm_merged').merge()
            wm.close()
        except Exception:
            pass      # a failing warm-up is not this case's business (the tuple sweeps cover it)
        truths, subdirs = [], []
        for i, p in enumerate(probes):
            # directory names whose alphabetical order is the reverse of the given order
            sd = d / ('probe_%s%d' % (chr(ord('z') - i), i))
            if len(probes) >= 2 and sum(q.get('n_channels', 3) for q in probes) % 2 == 0:
                # the layout of multi-probe recordings: <probe folder>/<sorter folder>, the same leaf
                # name for every probe
                sd = sd / 'ks2'
                os.makedirs(str(sd.parent), exist_ok=True)
            truths.append(dsgen.make_dataset(sd, probe_spec(p, fill)))
            subdirs.append(sd)
        if len(probes) == 2 and any(p.get('tsv') for p in probes):
            # an earlier session merged the same probe directories when their per-cluster tables held
            # other values; the tables were rewritten in place since: a merge reads the files as they are
            saved = {}
            try:
                for sd in subdirs:
                    for fn in os.listdir(str(sd)):
                        if fn.endswith('.tsv'):
                            fp = os.path.join(str(sd), fn)
                            saved[fp] = open(fp, 'rb').read()
                            lines = saved[fp].decode().split('\n')
                            with open(fp, 'w') as f:
                                f.write('\n'.join([lines[0]] + [
                                    (l.split('\t')[0] + '\tearlier') if l.strip() else l for l in lines[1:]]))
                em_ = Merger(subdirs, d / 'merged-in-an-earlier-session').merge()
                em_.close()
            except Exception:
                pass
            finally:
                for fp, content in saved.items():
                    with open(fp, 'wb') as f:
                        f.write(content)
        before = [dsgen.sha1_dir(sd) for sd in subdirs]
        out_dir = d / 'merged'
        # the output directory already holds the arrays of an earlier merge of other probes (other
        # shapes and dtypes): a merge replaces them
        try:
            os.makedirs(str(out_dir))
            for fn in os.listdir(str(d / 'warm_merged')):
                # (only arrays every merge writes; it does not remove optional files it has no input for)
                if fn in ('templates.npy', 'spike_times.npy', 'spike_clusters.npy', 'spike_templates.npy',
                          'amplitudes.npy', 'channel_map.npy', 'channel_positions.npy'):
                    shutil.copy(str(d / 'warm_merged' / fn), str(out_dir / fn))
        except Exception:
            pass
        m = None
        merger = None
        try:
            merger = Merger(subdirs, out_dir)
            m = merger.merge()
        except Exception as e:
            import traceback
            res['exception'] = e
            res['traceback'] = traceback.format_exc()[-800:]
        after = [dsgen.sha1_dir(sd) for sd in subdirs]
        res['inputs_unchanged'] = all(b == {k: v for k, v in a.items() if k in b}
                                      for b, a in zip(before, after))
        res['inputs_changed_files'] = sorted(set(
            f for b, a in zip(before, after) for f in b if a.get(f) != b[f]))
        res['inputs_new_files'] = sorted(set(f for b, a in zip(before, after) for f in a if f not in b))
        res['truths'] = truths
        out = {}
        if os.path.isdir(str(out_dir)):
            for fn in sorted(os.listdir(str(out_dir))):
                fp = os.path.join(str(out_dir), fn)
                if fn.endswith('.npy'):
                    try:
                        out[fn] = np.load(fp)
                    except Exception as e:
                        out[fn] = e
                elif fn.endswith('.tsv'):
                    out[fn] = read_tsv(fp)
                elif fn == 'params.py':
                    ns = {}
                    try:
                        exec(open(fp).read(), {}, ns)
                    except Exception as e:
                        ns = {'error': repr(e)}
                    out[fn] = ns
        res['out'] = out
        if m is not None:
            try:
                res['model'] = {
                    'spike_samples': np.array(m.spike_samples), 'amplitudes': np.array(m.amplitudes),
                    'spike_times': np.array(m.spike_times),
                    'spike_clusters': np.array(m.spike_clusters),
                    'spike_templates': np.array(m.spike_templates),
                    'channel_positions': np.array(m.channel_positions),
                    'channel_probes': np.array(m.channel_probes),
                    'channel_mapping': np.array(m.channel_mapping),
                    'similar_templates': np.array(m.similar_templates),
                    'n_templates': int(m.n_templates),
                }
            except Exception as e:
                res['model'] = {'error': repr(e)}
            finally:
                m.close()
        # the same Merger merges again: the output is the same
        res['second_merge_differs'] = None
        if res['exception'] is None and merger is not None:
            try:
                m3 = merger.merge()
                m3.close()
                diff = []
                for fn, a in out.items():
                    if isinstance(a, np.ndarray):
                        b = np.load(os.path.join(str(out_dir), fn))
                        if b.shape != a.shape or not np.array_equal(a, b, equal_nan=a.dtype.kind == 'f'):
                            diff.append(fn)
                    elif fn.endswith('.tsv'):
                        if read_tsv(os.path.join(str(out_dir), fn)) != a:
                            diff.append(fn)
                    elif fn == 'params.py':
                        ns2 = {}
                        exec(open(os.path.join(str(out_dir), fn)).read(), {}, ns2)
                        if ns2 != a:
                            diff.append('params.py: %r' % {k: ns2.get(k) for k in ('n_channels_dat', 'sample_rate')})
                res['second_merge_differs'] = diff
            except Exception as e:
                res['second_merge_differs'] = ['exception: ' + repr(e)[:200]]
        # a fresh load of the output directory (used by the "must load" clause)
        res['loads'] = None
        if res['exception'] is None:
            from phylib.io.model import load_model
            try:
                m2 = load_model(out_dir / 'params.py')
                res['loads'] = True
                m2.close()
            except Exception as e:
                res['loads'] = repr(e)
    return res


def reference_order(truths):
    """Stable merge by time: list of (probe, original index) in merged order."""
    items = []
    for k, tr in enumerate(truths):
        for i, t in enumerate(tr['spike_samples'].tolist()):
            items.append((int(t), k, i))
    items.sort(key=lambda x: x[0])     # Python's sort is stable: probe order, then original order
    return [(k, i) for _, k, i in items]
