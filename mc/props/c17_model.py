# -*- coding: utf-8 -*-
"""C17, model route: TemplateModel.save_spikes_subset_waveforms builds its SpikeSelector from the
reader's chunk grid and the spike samples; with more chunks than the 20 it keeps, the stored
spikes must lie in the kept chunks (stride rule) and respect the per-template count."""
import itertools
import math

import numpy as np

from .. import core
from ..gen import dsgen

PROP = 'C17'


def run_case(case, acc, order):
    from phylib.io.model import load_model
    chunk, n_chunks, n_kept_rule = case['chunk'], case['n_chunks'], 20
    n_raw = chunk * n_chunks - case.get('short_last', 0)
    # spikes: one at the start, in the middle and at the last sample of every chunk (where it fits)
    samples = []
    for c in range(n_chunks):
        for off in (0, chunk // 2, chunk - 1):
            s = c * chunk + off
            if s < n_raw and (c + off) % case['thin'] == 0:
                samples.append(s)
    samples = sorted(set(samples))
    if case.get('late'):
        # two spikes at and after the end of the recording: they lie in no chunk and are never eligible
        samples += [n_raw, n_raw + 3]
    ns = len(samples)
    nt = 3
    st = [(i * 7 + i // 3) % nt for i in range(ns)]
    spec = {'n_spikes': ns, 'n_templates': nt, 'n_channels': 4, 'nsw': 4, 'n_raw': n_raw,
            'spike_samples': samples, 'spike_templates': st, 'raw': True, 'features': 'absent',
            # curated clusters (templates 0 and 1 merged) in half of the cases: the count is per template
            'spike_clusters': ([nt if t in (0, 1) else t for t in st] if case.get('short_last') else 'same'),
            'tfeatures': 'absent', 'sample_rate': chunk / 600.0, 'time_dtype': case['time_dtype'],
            'templates': 'sparse' if case.get('short_last') else 'dense',
            'fill': case.get('fill', 0)}
    if case.get('alf'):
        # ALF names with the spike times in seconds only: the samples are recovered by rounding
        # (chunk 21: seconds * rate falls just below the integer for spikes on several chunk bounds)
        spec.update(naming='alf', alf_samples=False)
    stride = max(1, int(math.ceil(n_chunks / float(n_kept_rule))))
    kept = [(c * chunk, min((c + 1) * chunk, n_raw)) for c in range(0, n_chunks, stride)]
    eligible = {t: [i for i in range(ns) if st[i] == t and any(a <= samples[i] < b for a, b in kept)]
                for t in range(nt)}
    with core.Scratch() as d:
        tr = dsgen.make_dataset(d / 'ds', spec)
        m = load_model(tr['params_path'])
        try:
            acc.state()
            for max_n, which in ((1000, 0), (2, 0), (2, 1)):
                orig = np.random.choice

                def scripted(a, size=None, replace=True, p=None, which=which):
                    a = np.asarray(a)
                    return a[:size][::-1] if which == 0 else a[-size:]
                np.random.choice = scripted
                try:
                    m.save_spikes_subset_waveforms(max_n_spikes_per_template=max_n)
                    ids = sorted(int(x) for x in np.load(str(d / 'ds' / '_phy_spikes_subset.spikes.npy')))
                    held = sorted(int(x) for x in m.spike_waveforms.spike_ids)
                except Exception as e:
                    ids = e
                finally:
                    np.random.choice = orig
                acc.step(True, 'model:subset-export')
                bad = None
                if isinstance(ids, BaseException):
                    bad = (type(ids).__name__, repr(ids))
                else:
                    outside = [i for i in ids if not any(a <= samples[i] < b for a, b in kept)]
                    if outside:
                        bad = ('spike-outside-kept-chunks', {'spikes': outside[:8],
                                                             'samples': [samples[i] for i in outside[:8]]})
                    else:
                        for t in range(nt):
                            mine = [i for i in ids if st[i] == t]
                            want = len(eligible[t]) if len(eligible[t]) <= max_n else max_n
                            if len(mine) != want:
                                bad = ('count', {'template': t, 'stored': len(mine), 'expected': want})
                                break
                    if not bad and held != ids:
                        # the selection the model holds after the export is the one it has just stored
                        bad = ('held-selection-differs-from-the-stored-one', {'stored': ids[:12],
                                                                              'held': held[:12]})
                if bad:
                    sig = '%s/model-subset/%s' % (PROP, bad[0])
                    acc.violation(sig, core.make_record(
                        PROP, 'model', sig, case=case, op={'max_n_spikes_per_template': max_n,
                                                           'draw': which},
                        expected={'kept_chunks': kept[:6], 'eligible_per_template':
                                  {t: len(v) for t, v in eligible.items()}},
                        observed=bad[1]), order)
            # a selector built on the model's own per-cluster query, asked for a curated id
            if case.get('short_last'):
                from phylib.io.array import SpikeSelector
                try:
                    sel = SpikeSelector(get_spikes_per_cluster=m.get_cluster_spikes,
                                        spike_times=m.spike_samples, chunk_bounds=[0, n_raw],
                                        n_chunks_kept=1)
                    got = sorted(int(x) for x in sel(None, [nt, 2]))
                except Exception as e:
                    got = repr(e)
                exp = [i for i in range(ns) if st[i] in (0, 1, 2)]
                acc.step(True, 'model:selector-on-model-callback')
                if got != exp:
                    sig = '%s/model-selector/%s' % (PROP, 'value' if isinstance(got, list) else 'exception')
                    acc.violation(sig, core.make_record(
                        PROP, 'model', sig, case=case, op={'clusters': [nt, 2], 'count': None},
                        expected=exp[:20], observed=got[:20] if isinstance(got, list) else got), order)
            # a selector on the model's per-template query, asked for unknown ids next to a known one
            from phylib.io.array import SpikeSelector as _Sel
            try:
                sel = _Sel(get_spikes_per_cluster=m.get_template_spikes, spike_times=m.spike_samples,
                           chunk_bounds=[0, n_raw], n_chunks_kept=1)
                got = sorted(int(x) for x in sel(None, [0, 99, -1]))
            except Exception as e:
                got = repr(e)
            exp = [i for i in range(ns) if st[i] == 0]
            acc.step(True, 'model:selector-on-template-callback')
            if got != exp:
                sig = '%s/model-selector/template-callback/%s' % (
                    PROP, 'value' if isinstance(got, list) else 'exception')
                acc.violation(sig, core.make_record(
                    PROP, 'model', sig, case=case, op={'clusters': [0, 99, -1], 'count': None},
                    expected=exp[:20], observed=got[:20] if isinstance(got, list) else got), order)
        finally:
            m.close()
    acc.sample({'model_route': {'chunk': chunk, 'n_chunks': n_chunks, 'n_spikes': ns,
                                'stride': stride}}) if order % 5 == 0 else None


def explore(ctx):
    cases = []
    for n_chunks in ((3, 20, 21, 26, 41, 61) if ctx.thorough else (3, 21, 26, 41)):
        for chunk in (5, 8):
            for short_last in (0, 2):
                for tdt in ('uint64', 'int64'):
                    cases.append({'chunk': chunk, 'n_chunks': n_chunks, 'short_last': short_last,
                                  'thin': 1 if n_chunks <= 26 else 2, 'time_dtype': tdt,
                                  'fill': ctx.seed, 'late': (chunk == 8) == (tdt == 'uint64')})
    for n_chunks in (21, 41):
        for thin in (1, 2):
            cases.append({'chunk': 21, 'n_chunks': n_chunks, 'short_last': 0, 'thin': thin,
                          'time_dtype': 'uint64', 'fill': ctx.seed, 'alf': True})
    ctx.run_cases(run_case, cases, chunk=1, sweep='model-subset-export')


def replay(record):
    core.import_phylib('phylib.io.model')
    acc = core.Acc()
    run_case(record['case'], acc, 0)
    return [dict(v['record'], signature=s) for s, v in acc.violations.items()]
