# -*- coding: utf-8 -*-
"""C16 -- chunkings tile the sample axis exactly once.

space mode, four sweeps: chunk_bounds over every (n, chunk, overlap); excerpts /
get_excerpts over every (n, n_excerpts, size); _get_chunk_bounds and real flat readers
over every size list x chunk length; compressed readers over chunk x threads x cache.
"""
import itertools

import numpy as np

from .. import core
from ..gen import layouts

PROP = 'C16'


def imports():
    core.import_phylib('phylib.io.array', 'phylib.io.traces')


def viol(acc, sub, feature, kind, case, op, expected, observed, order):
    sig = '%s/%s/%s/%s' % (PROP, sub, feature, kind)
    acc.violation(sig, core.make_record(PROP, sub, sig, case=case, op=op, expected=expected,
                                        observed=observed), order)


# -- (a) chunk_bounds ----------------------------------------------------------

def run_chunk_bounds(case, acc, order):
    from phylib.io.array import chunk_bounds, data_chunk
    n = case['n']
    acc.state()
    data = np.arange(n)
    for chunk in range(1, case['M'] + 1):
        for overlap in range(0, chunk):
            op = {'n': n, 'chunk': chunk, 'overlap': overlap}
            nontrivial = overlap > 0 and n > chunk
            try:
                with core.time_limit(5):
                    cb = list(itertools.islice(chunk_bounds(n, chunk, overlap=overlap) if (overlap or n % 2)
                                               else chunk_bounds(n, chunk), 4 * n + 8))
            except (Exception, core.CaseTimeout) as e:
                acc.step(nontrivial, 'cb:exception')
                viol(acc, 'chunk_bounds', 'call', type(e).__name__, case, op, 'a list of 4-tuples',
                     repr(e), order)
                continue
            acc.step(nontrivial, 'cb:%s' % ('one' if len(cb) == 1 else 'many'))
            kept = [data_chunk(data, c) for c in cb]
            whole = [data_chunk(data, c, with_overlap=True) for c in cb]
            cat = np.concatenate(kept) if kept else data[:0]
            if not np.array_equal(cat, data):
                miss = sorted(set(data.tolist()) - set(cat.tolist()))
                kind = 'missing' if miss else ('duplicated' if len(cat) > n else 'order')
                viol(acc, 'chunk_bounds', 'kept-tiling', kind, case, op, 'kept parts == arange(n)',
                     {'bounds': cb, 'kept': cat.tolist()}, order)
                continue
            bad = None
            for (ss, se, ks, ke), k, w in zip(cb, kept, whole):
                if len(w) > chunk:
                    bad = ('chunk-size', 'too-long')
                elif len(k) and (len(w) == 0 or k[0] < w[0] or k[-1] > w[-1]):
                    bad = ('kept-inside-chunk', 'outside')
                if bad:
                    break
            if bad:
                viol(acc, 'chunk_bounds', bad[0], bad[1], case, op,
                     'every non-empty kept part inside its chunk data, chunk data length <= chunk',
                     {'bounds': cb}, order)
    if n % 13 == 0:
        acc.sample({'chunk_bounds': {'n': n, 'chunk': '1..%d' % case['M'], 'overlap': '0..chunk-1'}})


# -- (b) excerpts -----------------------------------------------------------------

def run_excerpts(case, acc, order):
    from phylib.io.array import excerpts, get_excerpts
    n = case['n']
    acc.state()
    data = np.arange(n) * 2 + 1
    for ne in range(0, 7):
        for size in range(1, 7):
            op = {'n': n, 'n_excerpts': ne, 'size': size}
            nontrivial = n >= ne * size and ne >= 2
            if ne >= 2:
                try:
                    with core.time_limit(5):
                        ex = list(itertools.islice(excerpts(n, n_excerpts=ne, excerpt_size=size),
                                                   4 * n + 8))
                except (Exception, core.CaseTimeout) as e:
                    acc.step(nontrivial, 'ex:exception')
                    viol(acc, 'excerpts', 'call', type(e).__name__, case, op, 'list of (start,end)',
                         repr(e), order)
                    ex = None
                if ex is not None:
                    acc.step(nontrivial, 'ex:%d' % min(len(ex), 3))
                    bad = None
                    if len(ex) > ne:
                        bad = 'too-many'
                    prev_end = 0
                    for (s, e) in ex:
                        if not (0 <= s < e <= n) and n > 0:
                            bad = bad or 'out-of-bounds'
                        if e - s > size:
                            bad = bad or 'too-long'
                        if s < prev_end:
                            bad = bad or 'overlap-or-order'
                        prev_end = e
                    if bad:
                        viol(acc, 'excerpts', 'intervals', bad, case, op,
                             'in-bounds, disjoint, increasing, <= n_excerpts, each <= size', ex, order)
            # get_excerpts on data
            try:
                out = get_excerpts(data, n_excerpts=ne, excerpt_size=size)
            except (Exception, core.CaseTimeout) as e:
                acc.step(nontrivial, 'gex:exception')
                viol(acc, 'get_excerpts', 'call', type(e).__name__, case, op, 'an array', repr(e),
                     order)
                continue
            acc.step(nontrivial, 'gex:%s' % ('whole' if n < ne * size else 'sub'))
            out = np.asarray(out)
            bad = None
            if n < ne * size:
                if not np.array_equal(out, data):
                    bad = 'not-whole-when-short'
            else:
                if len(out) > ne * size:
                    bad = 'too-many-samples'
                elif len(out) and (np.any(np.diff(out) <= 0) or not np.all(np.isin(out, data))):
                    bad = 'not-increasing-or-foreign'
                elif ne >= 1 and len(out) == 0 and n > 0:
                    bad = 'empty'
                else:
                    # at most ne runs of consecutive samples, each of length <= size
                    idx = (out - 1) // 2
                    runs = np.split(idx, np.nonzero(np.diff(idx) != 1)[0] + 1) if len(idx) else []
                    # two adjacent excerpts may touch: split long runs greedily by size
                    n_runs = sum(-(-len(r) // size) for r in runs)
                    if n_runs > ne:
                        bad = 'too-many-excerpts'
            if bad:
                viol(acc, 'get_excerpts', 'result', bad, case, op,
                     'whole data when shorter than requested, else <= n_excerpts runs of <= size',
                     out.tolist(), order)


# -- (c) _get_chunk_bounds and real flat readers ------------------------------------

def check_reader_bounds(bounds, part_bounds, n, chunk):
    b = [int(x) for x in bounds]
    if not b or b[0] != 0 or b[-1] != n:
        return 'ends'
    if any(y <= x for x, y in zip(b[:-1], b[1:])):
        return 'not-strictly-increasing'
    if not set(int(p) for p in part_bounds) <= set(b):
        return 'file-boundary-missing'
    if any(y - x > chunk for x, y in zip(b[:-1], b[1:])):
        return 'gap-exceeds-chunk'
    return None


def check_iter(intervals, n):
    pos = 0
    for (i0, i1) in intervals:
        i0, i1 = int(i0), int(i1)
        if i1 < i0:
            return 'negative-interval'
        if i1 == i0:
            continue
        if i0 != pos:
            return 'gap-or-overlap'
        pos = i1
    if pos != n:
        return 'incomplete'
    return None


def run_sizes(case, acc, order):
    from phylib.io.traces import _get_chunk_bounds
    sizes = case['sizes']
    n = sum(sizes)
    pb = [0] + list(np.cumsum(sizes))
    for chunk in range(1, case['C'] + 1):
        op = {'sizes': sizes, 'chunk': chunk}
        nontrivial = len(sizes) >= 2 and any(s % chunk for s in sizes)
        try:
            b = _get_chunk_bounds(sizes, chunk)
        except (Exception, core.CaseTimeout) as e:
            acc.step(nontrivial, 'gcb:exception')
            viol(acc, 'get_chunk_bounds', 'call', type(e).__name__, case, op, 'bounds', repr(e), order)
            continue
        acc.step(nontrivial, 'gcb')
        bad = check_reader_bounds(b, pb, n, chunk)
        if bad:
            viol(acc, 'get_chunk_bounds', 'bounds', bad, case, op,
                 'strictly increasing 0..n, contains file boundaries, gaps <= chunk',
                 [int(x) for x in b], order)
        # the same through a real reader on real files
        acc.state()
        backends = ['flat'] + (['array', 'npy'] if len(sizes) == 1 else [])
        backend = backends[(chunk + case.get('fill', 0)) % len(backends)]
        lay = {'backend': backend, 'dtype': 'int16', 'n_channels': 2, 'offset': case.get('offset', 0),
               'parts': sizes, 'sample_rate': chunk / 600.0, 'fill': case.get('fill', 0)}
        with core.Scratch() as d:
            try:
                r, A = layouts.build_reader(d, lay)
                cb = list(r.chunk_bounds)
                it = list(r.iter_chunks())
                rpb = list(r.part_bounds)
                ns = r.n_samples
                # what the chunk intervals hold is what one read of the whole recording holds
                whole = np.asarray(r[0:n])
                pieces = [np.asarray(r[a:b_]) for a, b_ in it if b_ > a]
                # a spike selector is built on the reader's chunk grid (as the model does), with a last
                # spike after the end of the recording: the reader's grid is an input, not a scratch pad
                from phylib.io.array import SpikeSelector
                SpikeSelector(get_spikes_per_cluster=lambda c: np.array([0, 1]),
                              spike_times=np.array([0, n + 3]), chunk_bounds=r.chunk_bounds, n_chunks_kept=2)
                after = (list(r.chunk_bounds), list(r.iter_chunks()), r.n_samples)
                layouts.close_reader(r)
            except (Exception, core.CaseTimeout) as e:
                acc.step(nontrivial, 'reader:exception')
                viol(acc, 'flat-reader', 'build', type(e).__name__, case, op, 'a reader', repr(e),
                     order)
                continue
        acc.step(nontrivial, 'reader')
        bad = check_reader_bounds(cb, pb, n, chunk) or (None if ns == n else 'n_samples')
        if bad:
            viol(acc, 'flat-reader', 'chunk_bounds', bad, case, op, 'as above', [int(x) for x in cb],
                 order)
        bad = check_iter(it, n)
        if bad:
            viol(acc, 'flat-reader', 'iter_chunks', bad, case, op, 'non-empty intervals tile [0,n)',
                 [(int(a), int(b_)) for a, b_ in it], order)
        joined = np.concatenate(pieces) if pieces else np.zeros((0, 2), dtype=A.dtype)
        if whole.shape != A.shape or joined.shape != A.shape or not np.array_equal(whole, A) or \
                not np.array_equal(joined, A):
            viol(acc, 'flat-reader', 'iter_chunks', 'chunks-do-not-add-up-to-the-whole-read', case, op,
                 list(A.shape), {'whole': list(whole.shape), 'chunks': list(joined.shape)}, order)
        if [int(x) for x in after[0]] != [int(x) for x in cb] or after[2] != ns or \
                [(int(a), int(b_)) for a, b_ in after[1]] != [(int(a), int(b_)) for a, b_ in it]:
            viol(acc, 'flat-reader', 'chunk_bounds', 'changed-by-a-selector-built-on-them', case, op,
                 [int(x) for x in cb], [int(x) for x in after[0]], order)
        if len(sizes) == 1:
            # the reader without a file (synthetic data): the same promises about its chunk grid
            try:
                from phylib.io.traces import RandomEphysReader
                rr = RandomEphysReader(n, 2, sample_rate=chunk / 600.0)
                cb, it = list(rr.chunk_bounds), list(rr.iter_chunks())
            except (Exception, core.CaseTimeout) as e:
                viol(acc, 'random-reader', 'build', type(e).__name__, case, op, 'a reader', repr(e), order)
                continue
            acc.step(n % chunk == 0, 'reader:random')
            bad = check_reader_bounds(cb, [0, n], n, chunk)
            if bad:
                viol(acc, 'random-reader', 'chunk_bounds', bad, case, op, 'as above', [int(x) for x in cb],
                     order)
            bad = check_iter(it, n)
            if bad:
                viol(acc, 'random-reader', 'iter_chunks', bad, case, op, 'non-empty intervals tile [0,n)',
                     [(int(a), int(b_)) for a, b_ in it], order)
    if order % 37 == 0:
        acc.sample({'file_sizes': sizes, 'chunk_lengths': '1..%d' % case['C']})


# -- (d) compressed readers ------------------------------------------------------------

def run_cbin(case, acc, order):
    n = case['n']
    for chunk in sorted(set([1, 2, 3, n])):
        for threads in (1, 2, 3):
            lay = {'backend': 'cbin_reader', 'dtype': case.get('dtype', 'int16'), 'n_channels': 2,
                   'parts': [n], 'sample_rate': 1000.0, 'fill': case.get('fill', 0), 'chunk': chunk,
                   'threads': threads}
            acc.state()
            for cache in (False, True):
                op = {'n': n, 'chunk': chunk, 'threads': threads, 'cache': cache}
                n_chunks = -(-n // chunk)
                nontrivial = n_chunks >= 2 and (n_chunks % threads != 0 or n % chunk != 0)
                with core.Scratch() as d:
                    try:
                        r, A = layouts.build_reader(d, lay)
                        cb = list(r.chunk_bounds)
                        it = []
                        data_ok = True
                        for i0, i1 in itertools.islice(r.iter_chunks(cache=cache), 8 * n + 8):
                            it.append((int(i0), int(i1)))
                            if i1 > i0 and not np.array_equal(r[i0:i1], A[i0:i1]):
                                data_ok = False
                        layouts.close_reader(r)
                    except (Exception, core.CaseTimeout) as e:
                        acc.step(nontrivial, 'cbin:exception')
                        viol(acc, 'cbin-reader', 'iter_chunks', type(e).__name__, case, op,
                             'intervals', repr(e), order)
                        continue
                acc.step(nontrivial, 'cbin:cache' if cache else 'cbin:nocache')
                bad = check_reader_bounds(cb, [0, n], n, chunk)
                if bad:
                    viol(acc, 'cbin-reader', 'chunk_bounds', bad, case, op, 'as above', cb, order)
                bad = check_iter(it, n) or (None if data_ok else 'chunk-data')
                if bad:
                    viol(acc, 'cbin-reader', 'iter_chunks', bad, case, op,
                         'non-empty intervals tile [0,n) and hold the data', it, order)
    acc.sample({'cbin': {'n': n, 'chunks': [1, 2, 3, n], 'threads': [1, 2, 3], 'cache': [0, 1]}}) \
        if n == 5 else None


RUN = {'cb': run_chunk_bounds, 'ex': run_excerpts, 'sizes': run_sizes, 'cbin': run_cbin}


def run_case(case, acc, order):
    RUN[case['kind']](case, acc, order)


def self_test():
    # the repository's own hand-computed examples (test_get_chunk_bounds, test_chunk_bounds)
    assert check_reader_bounds([0, 2, 3, 5, 6], [0, 3, 6], 6, 2) is None
    assert check_reader_bounds([0, 2, 4, 6], [0, 3, 6], 6, 2) == 'file-boundary-missing'
    assert check_iter([(0, 0), (0, 4), (4, 5)], 5) is None
    assert check_iter([(0, 4), (3, 5)], 5) == 'gap-or-overlap'


def explore(ctx):
    self_test()
    N, M = (300, 40) if ctx.thorough else (120, 24)
    S, C = (10, 12) if ctx.thorough else (8, 10)
    ctx.bounds = {'chunk_bounds': {'n<=': N, 'chunk<=': M}, 'excerpts': {'n<=': N, 'n_excerpts<=': 6,
                                                                         'size<=': 6},
                  'file_sizes': {'files<=': 3, 'size<=': S, 'chunk<=': C},
                  'cbin': {'n<=': 8 if not ctx.thorough else 10, 'chunk': '1,2,3,n', 'threads': [1, 2, 3]}}
    ctx.rule = ('state = a data length / file-size list / compressed file actually built; transition '
                '= one (chunk, overlap) / (n_excerpts, size) / chunk-length / (threads, cache) point '
                'whose yielded bounds are checked against the tiling invariants; non-trivial = overlap '
                '> 0 with several chunks, data long enough for the requested excerpts, >= 2 files whose '
                'sizes are not multiples of the chunk, compressed chunk count not a multiple of the '
                'batch size')
    ctx.assumptions = ['mtscomp is trusted to create the .cbin inputs']
    ctx.run_cases(run_case, [{'kind': 'cb', 'n': n, 'M': M} for n in range(1, N + 1)], chunk=1,
                  sweep='chunk_bounds')
    ctx.run_cases(run_case, [{'kind': 'ex', 'n': n} for n in range(0, N + 1)], chunk=2,
                  sweep='excerpts')
    sizes = []
    for k in (1, 2, 3):
        sizes += [list(s) for s in itertools.product(range(1, S + 1), repeat=k)]
    sizes += [list(s) for s in itertools.product(range(1, (5 if ctx.thorough else 4) + 1), repeat=4)]
    ctx.run_cases(run_case, [{'kind': 'sizes', 'sizes': s, 'C': C, 'fill': ctx.seed,
                              'offset': [0, 5][i % 2]} for i, s in enumerate(sizes)],
                  sweep='file-sizes')
    nmax = 14 if ctx.thorough else 10
    dts = ['int16', 'float32']
    ctx.run_cases(run_case, [{'kind': 'cbin', 'n': n, 'fill': ctx.seed, 'dtype': dt}
                             for n in range(1, nmax + 1) for dt in dts], chunk=1, sweep='cbin')


def replay(record):
    imports()
    return core.replay_case(run_case, record)
