# -*- coding: utf-8 -*-
"""C10 -- saved curation state survives any save/reload history.

bfs mode (histories) + env mode (the subset selector's draw): events save_clusters /
save_meta / foreign file / subset export / close / reload are applied to a real TemplateModel on
a generated dataset (rebuilt per transition by replaying the history on a fresh directory);
after EVERY event a fresh load_model of the directory is compared with a dictionary reference.
Canonical state = (sorted (file, sha1) of the directory, live-model descriptor).
"""
import hashlib
import os

import numpy as np

from .. import core
from ..gen import dsgen
from ..util import describe

PROP = 'C10'


def imports():
    core.import_phylib('phylib.io.model')


MAPPINGS = {
    'labels': {0: 'good', 1: 'mua'},
    'ints_none': {1: 3, 2: None},
    'float_str': {0: 2.5, 2: 'a b'},
    'empty': {},
    'zeros': {0: 0, 1: 0.0, 3: 7},     # falsy values are values, only None entries are dropped
    'bigints': {0: 2 ** 53 + 1, 2: -(2 ** 62) - 3, 1: 2.0 / 3.0},    # integers that no double holds
                                                                     # exactly; a float with 16 digits
    'quoting': {0: 'see "fig 2"', 1: 'a,b', 3: "it's"},      # strings the table writer has to quote
}
FIELDS = ['group', 'inf']       # 'inf': a field whose file name (cluster_inf.tsv) is contained in 'cluster_info'

FOREIGN_NAMES = {'cluster_metrics.tsv': ('m', '\t'), 'extra.csv': ('e', ','), 'error.tsv': ('r', '\t'),
                 'cluster_info.tsv': ('i', '\t'),
                 # the separator is a property of the content, not of the extension (the legacy
                 # cluster_groups.csv of phy is tab-separated)
                 'cluster_groups.csv': ('g', '\t'), 'commas.tsv': ('c', ',')}
SEPARATOR_NAMES = ['cluster_groups.csv', 'commas.tsv']


def foreign_body(name, kind):
    pfx, dl = FOREIGN_NAMES[name]
    f1, f2 = pfx + '1', pfx + '2'
    if kind == 'valid':
        txt = dl.join(['cluster_id', f1, f2]) + '\n' + dl.join(['0', '1.5', 'hello']) + '\n' + \
            dl.join(['2', '', 'world']) + '\n'
        return txt.encode(), {f1: {0: 1.5}, f2: {0: 'hello', 2: 'world'}}
    if kind == 'valid_gap_first':
        txt = dl.join(['cluster_id', f1, f2]) + '\n' + dl.join(['0', '', 'hello']) + '\n' + \
            dl.join(['2', '1.5', 'world']) + '\n'
        return txt.encode(), {f1: {2: 1.5}, f2: {0: 'hello', 2: 'world'}}
    if kind == 'same_field':
        # a foreign CSV that has a column named like a field saved through the model: the saved
        # mapping is what a reload shows for that field, the other column is shown next to it
        txt = dl.join(['cluster_id', FIELDS[0], f2]) + '\n' + dl.join(['0', 'csvA', 'hello']) + '\n' + \
            dl.join(['2', 'csvB', 'world']) + '\n'
        return txt.encode(), {FIELDS[0]: {0: 'csvA', 2: 'csvB'}, f2: {0: 'hello', 2: 'world'}}
    if kind == 'header':
        return (dl.join(['cluster_id', f1]) + '\n').encode(), None
    if kind == 'empty':
        return b'', None
    if kind == 'ragged':
        return (dl.join(['cluster_id', f1, f2]) + '\n' + dl.join(['0', '1']) + '\n' +
                dl.join(['1', '2', '3', '4']) + '\n').encode(), None
    if kind == 'noid':
        return (dl.join(['a' + pfx, 'b' + pfx]) + '\n' + dl.join(['1', '2']) + '\n').encode(), None
    if kind == 'badutf8':
        return b'\xff\xfe\x00cluster_id' + dl.encode() + f1.encode() + b'\n0' + dl.encode() + b'\xc3\x28\n', None
    raise ValueError(kind)


def alphabet(tier):
    evs = [('save_clusters', 'merge'), ('save_clusters', 'split'), ('save_clusters', 'identity')]
    for f in FIELDS:
        for mname in MAPPINGS:
            if tier != 'thorough' and f == FIELDS[0] and mname not in ('labels', 'ints_none', 'empty'):
                continue       # quick: the value alphabet is complete on the second field only
            evs.append(('save_meta', f, mname))
    kinds = ['valid', 'valid_gap_first', 'header', 'empty', 'ragged', 'noid', 'badutf8'] \
        if tier == 'thorough' else ['valid', 'valid_gap_first', 'empty', 'badutf8', 'ragged']
    names = [n for n in FOREIGN_NAMES if n not in SEPARATOR_NAMES] if tier == 'thorough' else [
        'cluster_metrics.tsv', 'extra.csv', 'cluster_info.tsv']
    for n in names:
        for k in kinds:
            evs.append(('foreign', n, k))
    for n in SEPARATOR_NAMES:
        evs.append(('foreign', n, 'valid'))
    evs.append(('foreign', 'extra.csv', 'same_field'))
    evs += [('subset', 0), ('subset', 1), ('close',), ('reload',)]
    return evs


class Ref(object):
    def __init__(self, clusters):
        self.clusters = list(clusters)
        self.fields = {}
        self.foreign = {}        # file name -> fields dict or None (malformed / no claim)
        self.store = None        # list of stored spike ids (unknown order) or None
        self.closed = False

    def new_clusters(self, how):
        sc = list(self.clusters)
        ids = sorted(set(sc))
        mx = max(sc)
        if how == 'identity':
            return sc
        if how == 'merge':
            if len(ids) < 2:
                return sc
            return [mx + 1 if x in ids[:2] else x for x in sc]
        if how == 'split':
            c = ids[0]
            first = sc.index(c)
            sc[first] = mx + 1
            return sc
        raise ValueError(how)


class World(object):
    def __init__(self, base, d):
        self.base = base
        self.dir = d / 'ds'
        self.tr = dsgen.make_dataset(self.dir, base['spec'])
        self.model = None
        self.ref = Ref([int(x) for x in self.tr['spike_clusters']])
        for name, t in (base['spec'].get('tsv') or {}).items():
            # metadata the dataset comes with: the state "last saved" before the history starts
            self.ref.fields[t['field']] = dict(t['values'])
        self.loaded_digest = None
        self.load()

    def load(self):
        from phylib.io.model import load_model
        if self.model is not None and not self.ref.closed:
            try:
                self.model.close()
            except Exception:
                pass
        self.model = load_model(self.tr['params_path'])
        self.ref.closed = False
        self.loaded_digest = self.digest()
        self.has_store = self.model.spike_waveforms is not None

    def digest(self):
        h = hashlib.sha1()
        for fn, s in sorted(dsgen.sha1_dir(self.dir).items()):
            h.update(fn.encode())
            h.update(s.encode())
        return h.hexdigest()[:16]

    def enabled(self, ev):
        if self.ref.closed and ev[0] in ('save_clusters', 'save_meta', 'subset', 'close'):
            return False
        return True

    def apply(self, ev):
        """Apply one event to the real model / directory and to the reference."""
        k = ev[0]
        m, ref = self.model, self.ref
        if k == 'save_clusters':
            v = ref.new_clusters(ev[1])
            m.save_spike_clusters(np.array(v, dtype=np.int32))
            ref.clusters = v
        elif k == 'save_meta':
            mp = MAPPINGS[ev[2]]
            m.save_metadata(ev[1], dict(mp))
            ref.fields[ev[1]] = {c: v for c, v in mp.items() if v is not None}
        elif k == 'foreign':
            body, fields = foreign_body(ev[1], ev[2])
            with open(str(self.dir / ev[1]), 'wb') as f:
                f.write(body)
            ref.foreign[ev[1]] = fields
        elif k == 'subset':
            which = ev[1]
            orig = np.random.choice

            def scripted(a, size=None, replace=True, p=None):
                a = np.asarray(a)
                return a[:size][::-1] if which == 0 else a[-size:]
            np.random.choice = scripted
            try:
                m.save_spikes_subset_waveforms(max_n_spikes_per_template=2)
            finally:
                np.random.choice = orig
            if self.tr['raw'] is not None:
                ref.store = True
                self.has_store = True
        elif k == 'close':
            m.close()
            ref.closed = True
        elif k == 'reload':
            self.load()
        else:
            raise ValueError(ev)

    def observe(self):
        """A fresh load of the directory compared with the reference. Returns list of mismatches."""
        from phylib.io.model import load_model
        bad = []
        ref, tr = self.ref, self.tr
        try:
            m = load_model(tr['params_path'])
        except Exception as e:
            import traceback
            malformed = [n for n, f in ref.foreign.items() if f is None]
            return [('load', type(e).__name__ + (',malformed-foreign-file' if malformed else ''),
                     'loads', traceback.format_exc()[-500:])]
        try:
            if [int(x) for x in m.spike_clusters] != ref.clusters:
                bad.append(('spike_clusters', 'not-last-saved', ref.clusters,
                            [int(x) for x in m.spike_clusters]))
            if not np.array_equal(m.spike_templates, tr['spike_templates']):
                bad.append(('spike_templates', 'changed', describe(tr['spike_templates']),
                            describe(np.asarray(m.spike_templates))))
            if not np.array_equal(m.spike_samples, tr['spike_samples']):
                bad.append(('spike_samples', 'changed', describe(tr['spike_samples']),
                            describe(np.asarray(m.spike_samples))))
            md = m.metadata
            foreign_fields = set(f for n, fs in ref.foreign.items() if fs and n != 'cluster_info.tsv' for f in fs)
            for field, mp in ref.fields.items():
                if not mp and field in foreign_fields:
                    # an empty saved mapping and another file with a column of the same name: the
                    # statement does not say which of the two "no values" / "other file" is shown
                    continue
                got = dict(md.get(field, {}))
                if not _same_mapping(got, mp):
                    bad.append(('metadata', 'saved-field-differs', {field: mp}, {field: got}))
            for name, fields in ref.foreign.items():
                if fields is None or name == 'cluster_info.tsv':
                    continue
                for field, mp in fields.items():
                    if field in ref.fields:
                        continue       # a field saved through the model: its last saved mapping wins
                    got = dict(md.get(field, {}))
                    if not _same_mapping(got, mp):
                        bad.append(('metadata', 'foreign-field-differs', {field: mp}, {field: got}))
            if ref.store:
                sw = m.spike_waveforms
                if sw is None:
                    bad.append(('store', 'not-loaded', 'a subset store', None))
                else:
                    ids = np.asarray(sw.spike_ids)[::-1].copy()
                    ch = np.array([2, 0])
                    raw = tr['raw'][:, tr['channel_map']].astype(np.float64)
                    nsw = tr['spec']['nsw']
                    requests = [(ids, ch)]
                    if raw.shape[1] > 12:
                        # the store holds 12 channels per spike: each stored spike is asked for two of its
                        # own stored channels, in another order than the stored one
                        rows = np.asarray(sw.spike_channels)
                        requests = [(np.array([sid]), np.array([int(rows[k][1]), int(rows[k][0])]))
                                    for k, sid in enumerate(np.asarray(sw.spike_ids).tolist())]
                    for ids, ch in requests:
                        exp = np.zeros((len(ids), nsw, 2))
                        for i, sid in enumerate(ids):
                            s = int(tr['spike_samples'][sid])
                            for r in range(nsw):
                                t = s - nsw // 2 + r
                                if 0 <= t < raw.shape[0]:
                                    exp[i, r] = raw[t, ch]
                        try:
                            got = m.get_waveforms(ids, ch)
                        except Exception as e:
                            got = e
                        if not (isinstance(got, np.ndarray) and got.shape == exp.shape and
                                np.array_equal(np.asarray(got, dtype=np.float64), exp, equal_nan=True)):
                            bad.append(('store', 'waveforms-differ-from-raw', describe(exp), describe(got)))
                            break
                    ch = np.array([2, 0])
                    # a request that mixes stored and unstored spikes falls back to the raw data and
                    # must give the same windows
                    all_ids = np.arange(len(tr['spike_samples']))[::-1].copy()
                    exp_all = np.zeros((len(all_ids), nsw, 2))
                    for i, sid in enumerate(all_ids):
                        s = int(tr['spike_samples'][sid])
                        for r in range(nsw):
                            t = s - nsw // 2 + r
                            if 0 <= t < raw.shape[0]:
                                exp_all[i, r] = raw[t, ch]
                    try:
                        got_all = m.get_waveforms(all_ids, ch)
                    except Exception as e:
                        got_all = e
                    if not (isinstance(got_all, np.ndarray) and got_all.shape == exp_all.shape and
                            np.array_equal(np.asarray(got_all, dtype=np.float64), exp_all, equal_nan=True)):
                        bad.append(('store', 'mixed-stored-unstored-request-differs-from-raw',
                                    describe(exp_all), describe(got_all)))
                    st = tr['spike_templates']
                    per_t = {}
                    for sid in np.asarray(sw.spike_ids).tolist():
                        per_t[int(st[sid])] = per_t.get(int(st[sid]), 0) + 1
                    if any(v > 2 for v in per_t.values()):
                        bad.append(('store', 'too-many-spikes-per-template', '<= 2', per_t))
        finally:
            m.close()
        return bad

    def key(self):
        live = ('closed' if self.ref.closed else 'open', self.loaded_digest, bool(self.has_store))
        return (self.base['name'], self.digest(), live)

    def dispose(self):
        try:
            if self.model is not None and not self.ref.closed:
                self.model.close()
        except Exception:
            pass


def _same_mapping(got, exp):
    if set(got) != set(exp):
        return False
    for k, v in exp.items():
        g = got[k]
        if type(g) is not type(v) or g != v:
            return False
    return True


_BASES = []
_CFG = {'tier': 'quick'}


def make_bases(ctx):
    del _BASES[:]
    for name, raw, naming in (('raw', True, 'ks'), ('noraw', False, 'ks'), ('alf', False, 'alf'),
                              ('noclusters', False, 'ks')):
        spec = {'n_spikes': 8, 'n_templates': 3, 'n_channels': 4, 'nsw': 4, 'n_raw': 40,
                'spike_templates': [0, 1, 2, 0, 0, 1, 0, 2], 'raw': raw, 'features': 'absent',
                'tfeatures': 'absent', 'whitening_inv': True, 'fill': ctx.seed, 'naming': naming,
                'channel_map': 'perm' if raw else 'identity'}
        if raw:
            # a float recording with a few non-finite samples: the store holds what the raw data holds
            spec.update(raw_dtype='float32', raw_nonfinite=True,
                        # 12-sample chunks (600 s at 0.02 Hz) and two files: the 40-sample recording
                        # spans four chunks, spikes lie in all of them
                        sample_rate=0.02, raw_files=2, raw_dir='rec',
                        # an odd window length, and two spikes at the same sample
                        nsw=5, spike_samples=[2, 6, 6, 15, 20, 24, 29, 35])
        if name == 'noraw':
            # this dataset comes with a metadata file whose content equals one of the mappings of
            # the alphabet (saving another mapping and then this one again must rewrite the file)
            spec['tsv'] = {'cluster_group.tsv': {'field': 'group', 'values': dict(MAPPINGS['labels'])}}
        if name == 'noclusters':
            spec['spike_clusters'] = 'absent'     # load_model creates the cluster file itself
        _BASES.append({'name': name, 'spec': spec})
    # a 272-channel probe whose templates peak on the highest channels: the stored channel rows are
    # decreasing and name channels beyond 256 (explored over the events that touch the store only)
    _BASES.append({'name': 'raw272', 'spec': {
        'n_spikes': 8, 'n_templates': 3, 'n_channels': 272, 'geometry': 'col14', 'nsw': 4, 'n_raw': 40,
        'spike_templates': [0, 1, 2, 0, 0, 1, 0, 2], 'raw': True, 'features': 'absent', 'tfeatures': 'absent',
        'whitening': 'identity', 'whitening_inv': True, 'fill': ctx.seed, 'naming': 'ks', 'channel_map': 'identity',
        'profile': [[float(300 - abs(c - pk)) for c in range(272)] for pk in (271, 260, 5)],
        'sample_rate': 0.02, 'spike_samples': [2, 6, 7, 15, 20, 24, 29, 35]}})

RAW272_EVENTS = {('subset', 0), ('subset', 1), ('reload',), ('close',), ('save_clusters', 'merge')}


def prepare(tier, seed):
    class _C(object):
        pass
    c = _C()
    c.thorough, c.seed, c.tier = tier == 'thorough', seed, tier
    make_bases(c)
    _CFG['tier'] = tier


def expand(key, hist, acc):
    base = [b for b in _BASES if b['name'] == key[0]][0]
    succ = []
    for ev in alphabet(_CFG['tier']):
        with core.Scratch() as d:
            w = World(base, d)
            try:
                ok = True
                for e in hist:
                    w.apply(tuple(e))
                if not w.enabled(ev):
                    continue
                if not base['name'].startswith('raw') and ev[0] == 'subset' and ev[1] == 1:
                    continue
                if base['name'] == 'raw272' and ev not in RAW272_EVENTS:
                    continue
                try:
                    w.apply(ev)
                    bad = w.observe()
                except Exception as e:
                    import traceback
                    bad = [('event', type(e).__name__, 'no exception', traceback.format_exc()[-600:])]
                h2 = [list(e) for e in hist] + [list(ev)]
                kinds = [e[0] for e in h2]
                nontrivial = any(kinds.count(k) >= 2 for k in ('save_meta', 'save_clusters')) or \
                    ('reload' in kinds[:-1]) or any(e[0] == 'foreign' and e[2] != 'valid' for e in h2)
                acc.step(nontrivial, ev[0])
                if bad:
                    for attr, kind, exp, got in bad:
                        sig = '%s/history/%s/%s/after-%s' % (PROP, attr, kind, ev[0])
                        acc.violation(sig, core.make_record(
                            PROP, 'history', sig, case={'base': base['name'], 'spec': base['spec']},
                            trace=h2, expected=exp, observed=got), len(h2))
                    continue
                succ.append((w.key(), h2))
            finally:
                w.dispose()
    if len(hist) == 2 and hash(str(key)) % 40 == 0:
        acc.sample({'base': base['name'], 'history': hist})
    return succ


def explore(ctx):
    make_bases(ctx)
    _CFG['tier'] = ctx.tier
    depth = 4 if ctx.thorough else 3
    roots = []
    for b in _BASES:
        with core.Scratch() as d:
            w = World(b, d)
            roots.append((w.key(), []))
            w.dispose()
    n, dd, fix = core.bfs(ctx, expand, roots, max_depth=depth, sweep='histories', chunk=4)
    ctx.bounds = {'events': len(alphabet(ctx.tier)), 'depth': depth, 'bases': [b['name'] for b in _BASES]}
    ctx.notes['alf_base_depth'] = 'the ALF-named base is explored like the others'
    ctx.notes['depth_completed'] = dd
    ctx.rule = ('state = (directory content digest, live-model descriptor) reached by an event history '
                'on a generated dataset, rebuilt per transition by replaying the history on a fresh '
                'directory; transition = one event (save_clusters, save_meta, foreign file, subset '
                'export under a scripted draw, close, reload) followed by a fresh load_model compared '
                'with the dictionary reference; non-trivial = the history saves the same kind twice, '
                'acts after a reload, or contains a malformed file')
    ctx.assumptions = ['every foreign file uses field names of its own (two files defining one field '
                       'resolve by directory order, which the statement does not define)',
                       'methods of a closed model are not called, except reload',
                       'the selector draw is scripted (first-k reversed / last-k)']


def replay(record):
    imports()
    acc = core.Acc()
    make_bases(type('C', (), {'seed': record['case']['spec'].get('fill', 0)})())
    _CFG['tier'] = 'thorough'
    hist = record['trace']
    base = record['case']['base']
    expand((base,), hist[:-1], acc)
    return [dict(v['record'], signature=s) for s, v in acc.violations.items()
            if v['record'].get('trace') == hist]
