# -*- coding: utf-8 -*-
"""C02 -- lazy reader expressions commute with eager NumPy evaluation.

bfs mode over programs: every operator string up to a depth over the 53-operation alphabet
is applied lazily to a real reader and eagerly to the ground-truth array; and every
derivation tree (a set of live readers, events derive(node, op)) up to a number of
derivations, where after each event EVERY live node is read again, so a child that
changes its parent or a sibling is seen at the step where it happens.
"""
import collections
import itertools

import numpy as np

from .. import core
from ..gen import layouts
from ..util import arr_equal_ulp, describe

PROP = 'C02'

SCALARS = [2, 3, -1, 0.5, 0, 1.0]  # 0: a falsy operand is still an operand; 1.0: neutral in value, not in dtype
BINARY = ['add', 'radd', 'sub', 'rsub', 'mul', 'rmul', 'truediv', 'rtruediv', 'floordiv',
          'rfloordiv', 'pow', 'rpow']
COLS = [{'k': 'slice', 'v': [None, None, -1]}, {'k': 'list', 'v': [1]}, {'k': 'list', 'v': [2, 0]},
        {'k': 'list', 'v': [2, 0, 1]}]     # all channels in the caller's (not ascending) order


def imports():
    core.import_phylib('phylib.io.traces')


def alphabet():
    ops = [['pos', None], ['neg', None]]
    for b in BINARY:
        for s in SCALARS:
            ops.append([b, s])
    for c in COLS:
        ops.append(['cols', c])
    return ops


TREE_OPS = [['neg', None], ['add', 2], ['rsub', 0], ['mul', 0.5], ['rtruediv', 2], ['pow', 2],
            ['rfloordiv', 3], ['cols', COLS[0]], ['cols', COLS[2]]]


def op_class(op):
    name = op[0]
    if name in ('pos', 'neg'):
        return 'unary'
    if name == 'cols':
        return 'cols'
    if name in ('add', 'sub', 'mul'):
        return 'arith'
    if name in ('radd', 'rsub', 'rmul'):
        return 'rarith'
    if name in ('truediv', 'floordiv'):
        return 'div'
    if name in ('rtruediv', 'rfloordiv'):
        return 'rdiv'
    return name  # pow, rpow


def mkcol(c):
    return slice(*c['v']) if c['k'] == 'slice' else list(c['v'])


def apply_py(x, op):
    """Apply one operation with the Python operators (works on ndarray and on readers)."""
    name, arg = op
    if name == 'cols':
        return x[:, mkcol(arg)]
    if name == 'pos':
        return +x
    if name == 'neg':
        return -x
    if name == 'add':
        return x + arg
    if name == 'radd':
        return arg + x
    if name == 'sub':
        return x - arg
    if name == 'rsub':
        return arg - x
    if name == 'mul':
        return x * arg
    if name == 'rmul':
        return arg * x
    if name == 'truediv':
        return x / arg
    if name == 'rtruediv':
        return arg / x
    if name == 'floordiv':
        return x // arg
    if name == 'rfloordiv':
        return arg // x
    if name == 'pow':
        return x ** arg
    if name == 'rpow':
        return arg ** x
    raise ValueError(name)


def eager(A, prog):
    x = A
    for op in prog:
        x = apply_py(x, op)
    return x


def row_ops(n, fam):
    rows = [('all', slice(None)), ('int0', 0), ('intlast', n - 1), ('intneg', -1), ('npint', np.int64(1)),
            ('cross', slice(1, n - 1)), ('negslice', slice(-n + 1, None))]
    if fam != 'cbin':
        rows += [('list', [0, n - 1]), ('arr', np.array([1, n - 2]))]
    return rows


def ulps_for(prog):
    """Float tolerance in ULP: 4 for one inexact step (NumPy's SIMD and scalar pow loops differ in
    the last bit); every further pow / rpow amplifies the relative error of its input by up to
    |exponent * ln(base)| <= ~128 for finite float32 results."""
    npow = sum(1 for o in prog if o[0] in ('pow', 'rpow'))
    return 4 * (128 ** max(0, npow - 1))


def compare(lazy_reader, E, n, fam, with_cols, ulps=4):
    """Index a lazy reader every way of the mini alphabet; return the first disagreement."""
    def arr_equal(a, b):
        # byte order is not part of the comparison (as in C01: the loaded array is native)
        if isinstance(a, np.ndarray) and isinstance(b, np.ndarray):
            a = a.astype(a.dtype.newbyteorder('='))
            b = b.astype(b.dtype.newbyteorder('='))
        return arr_equal_ulp(a, b, ulps)
    checked = 0
    for rname, r in row_ops(n, fam):
        rr = [int(r)] if isinstance(r, (int, np.integer)) else r
        exp = E[rr]
        try:
            got = lazy_reader[r]
            if not isinstance(got, np.ndarray) and hasattr(got, '_append_op'):
                got = got[:]
        except Exception as e:
            got = e
        checked += 1
        if not (isinstance(got, np.ndarray) and arr_equal(got, exp)):
            return checked, (rname, None, exp, got)
        if with_cols and E.ndim == 2 and E.shape[1] >= 1:
            c = [E.shape[1] - 1]
            exp2 = exp[:, c]
            try:
                got = lazy_reader[r, c]
                if not isinstance(got, np.ndarray) and hasattr(got, '_append_op'):
                    got = got[:]
            except Exception as e:
                got = e
            checked += 1
            if not (isinstance(got, np.ndarray) and arr_equal(got, exp2)):
                return checked, (rname, c, exp2, got)
    return checked, None


def kind_of(exp, got):
    if isinstance(got, BaseException):
        return type(got).__name__
    if not isinstance(got, np.ndarray):
        return 'type'
    if got.shape != exp.shape:
        return 'shape'
    if got.dtype != exp.dtype:
        return 'dtype'
    return 'value'


# ---------------------------------------------------------------------------
# programs
# ---------------------------------------------------------------------------

def run_programs(case, acc, order):
    lay = case['layout']
    fam = 'cbin' if lay['backend'].startswith('cbin') else lay['backend']
    n = int(sum(lay['parts']))
    depth = case['depth']
    ops = alphabet()
    first = case['first']
    only = case.get('only_prog')
    with core.Scratch() as d, np.errstate(all='ignore'):
        reader, A = layouts.build_reader(d, lay)
        try:
            acc.state()
            # DFS over suffixes after the fixed first op; levels are complete up to `depth`
            stack = [[ops[first]]]
            while stack:
                prog = stack.pop()
                if only is not None and prog != only[:len(prog)]:
                    continue
                try:
                    E = eager(A, prog)
                    eager_ok = isinstance(E, np.ndarray) and E.ndim == 2
                except Exception:
                    eager_ok = False
                if not eager_ok:
                    # no eager value: the statement makes no claim (and none about extensions)
                    acc.step(False, 'eager-raises')
                    continue
                acc.state()
                if only is None or prog == only:
                    try:
                        lz = reader
                        for op in prog:
                            lz = apply_py(lz, op)
                        is_reader = hasattr(lz, '_append_op') and not isinstance(lz, np.ndarray)
                    except Exception as e:
                        lz, is_reader = e, False
                    classes = sorted(set(op_class(o) for o in prog))
                    nontrivial = len(prog) >= 2 and (len(classes) >= 2) or E.dtype != A.dtype
                    if not is_reader:
                        sig = '%s/program/%s/ops=%s/not-a-reader' % (PROP, fam, '+'.join(classes))
                        acc.step(nontrivial, 'not-reader')
                        acc.violation(sig, core.make_record(
                            PROP, 'program', sig, case=dict(case, only_prog=prog), op={'program': prog},
                            expected='a reader', observed=describe(lz)), len(prog) * 10 ** 6 + order)
                    else:
                        cnt, bad = compare(lz, E, n, fam, with_cols=True, ulps=ulps_for(prog))
                        acc.step(nontrivial, 'depth%d' % len(prog), n=cnt)
                        if bad:
                            rname, c, exp, got = bad
                            sig = '%s/program/%s/ops=%s/%s' % (PROP, fam, '+'.join(classes),
                                                              kind_of(exp, got))
                            acc.violation(sig, core.make_record(
                                PROP, 'program', sig, case=dict(case, only_prog=prog),
                                op={'program': prog, 'rows': rname, 'cols': c},
                                expected=describe(exp), observed=describe(got)),
                                len(prog) * 10 ** 6 + order)
                if len(prog) < depth:
                    for op in ops:
                        stack.append(prog + [op])
        finally:
            layouts.close_reader(reader)
    if order % 53 == 0:
        acc.sample({'layout': lay, 'programs': 'every program of depth <= %d starting with %r' % (
            depth, ops[first])})


# ---------------------------------------------------------------------------
# derivation trees
# ---------------------------------------------------------------------------

def canon(nodes):
    """Multiset of expressions + aliasing pattern of the deferred-op lists."""
    exprs = tuple(sorted(repr(p) for p, _ in nodes))
    ids = {}
    pattern = []
    for p, r in sorted(nodes, key=lambda pr: repr(pr[0])):
        i = id(getattr(r, '_ops', r))
        pattern.append(ids.setdefault(i, len(ids)))
    return exprs, tuple(pattern)


def run_trees(case, acc, order):
    lay = case['layout']
    fam = 'cbin' if lay['backend'].startswith('cbin') else lay['backend']
    n = int(sum(lay['parts']))
    maxd = case['derivations']
    only = case.get('only_hist')
    with core.Scratch() as d, np.errstate(all='ignore'):
        reader0, A = layouts.build_reader(d, lay)
        layouts.close_reader(reader0) if False else None
        seen = set()
        frontier = collections.deque([[]])
        while frontier:
            hist = frontier.popleft()
            for node_i in range(len(hist) + 1):
                for op in TREE_OPS:
                    ev = [node_i, op]
                    h2 = hist + [ev]
                    if only is not None and h2 != only[:len(h2)]:
                        continue
                    # rebuild: replay the history on a fresh root reader
                    with core.Scratch() as d2:
                        root, _ = layouts.build_reader(d2, lay)
                        try:
                            nodes = [([], root)]
                            bad = None
                            ok_hist = True
                            for k, (ni, o) in enumerate(h2):
                                prog = nodes[ni][0] + [o]
                                try:
                                    E = eager(A, prog)
                                    if not (isinstance(E, np.ndarray) and E.ndim == 2):
                                        raise ValueError
                                except Exception:
                                    ok_hist = False   # no eager value for this node: not in scope
                                    break
                                try:
                                    child = apply_py(nodes[ni][1], o)
                                except Exception as e:
                                    child = e
                                nodes.append((prog, child))
                                if k < len(h2) - 1:
                                    continue   # earlier steps were checked when they were the last
                                # after the event: every live node must still equal its own expression
                                acc.state()
                                for j, (p, r) in enumerate(nodes):
                                    Ej = eager(A, p)
                                    if isinstance(r, BaseException) or not hasattr(r, '_append_op'):
                                        cnt, res = 1, ('derive', None, 'a reader', r)
                                    else:
                                        cnt, res = compare(r, Ej, n, fam, with_cols=False, ulps=ulps_for(p))
                                    acc.step(len(nodes) >= 3, 'tree%d' % len(h2), n=cnt)
                                    if res and bad is None:
                                        who = 'new-node' if j == len(nodes) - 1 else (
                                            'parent' if j == ni else (
                                                'root' if j == 0 else 'sibling-or-other'))
                                        bad = (who, j, p, res)
                            if not ok_hist:
                                continue
                            if bad:
                                who, j, p, (rname, c, exp, got) = bad
                                sig = '%s/tree/%s/%s-changed/%s' % (
                                    PROP, fam, who,
                                    kind_of(exp, got) if isinstance(exp, np.ndarray) else 'not-a-reader')
                                acc.violation(sig, core.make_record(
                                    PROP, 'tree', sig, case=dict(case, only_hist=h2),
                                    trace=h2, op={'node': j, 'node_program': p, 'rows': rname},
                                    expected=describe(exp), observed=describe(got)),
                                    len(h2) * 10 ** 6 + order)
                                continue   # do not expand a violating state
                            key = canon(nodes)
                            if key in seen:
                                acc.extra['tree_states_merged'] += 1
                                continue
                            seen.add(key)
                            acc.extra['tree_states_distinct'] += 1
                            if len(h2) < maxd:
                                frontier.append(h2)
                        finally:
                            for _, r in nodes:
                                if not isinstance(r, BaseException):
                                    layouts.close_reader(r)
    acc.sample({'layout': lay, 'trees': 'every derivation tree with <= %d derivations over %d ops'
                % (maxd, len(TREE_OPS))}) if order % 5 == 0 else None


def run_case(case, acc, order):
    if case['kind'] == 'programs':
        run_programs(case, acc, order)
    else:
        run_trees(case, acc, order)


def roots(ctx):
    out = []
    i = 0
    for backend in ('flat', 'array', 'npy', 'cbin'):
        for dt in ('int16', 'float32', 'float64', 'uint8'):
            lay = {'backend': backend, 'dtype': dt, 'n_channels': 3, 'offset': 0,
                   'parts': [2, 3] if backend == 'flat' else [5], 'sample_rate': 2 / 600.0,
                   'fill': ctx.seed + i, 'chunk': 2}
            out.append(lay)
            i += 1
    # integer samples close to the limits of their type: every intermediate result of a program wraps
    # as the eager expression does (a deferred program must not be simplified algebraically)
    # a sample type whose byte order is not the native one; a recording with fewer samples than channels
    out.append({'backend': 'flat', 'dtype': '>i2', 'n_channels': 3, 'offset': 0, 'parts': [2, 3],
                'sample_rate': 2 / 600.0, 'fill': ctx.seed + i, 'chunk': 2})
    out.append({'backend': ['array', 'npy'][ctx.seed % 2], 'dtype': 'int16', 'n_channels': 3, 'offset': 0,
                'parts': [2], 'sample_rate': 2 / 600.0, 'fill': ctx.seed + i + 1, 'chunk': 2})
    i += 2
    # a recording in three files (bounds of the third part)
    out.append({'backend': 'flat', 'dtype': 'int16', 'n_channels': 3, 'offset': 0, 'parts': [1, 2, 2],
                'sample_rate': 2 / 600.0, 'fill': ctx.seed + i, 'chunk': 2})
    i += 1
    for backend, dt in (('flat', 'int16'), ('array', 'uint8'), ('npy', 'int16')):
        out.append({'backend': backend, 'dtype': dt, 'n_channels': 3, 'offset': 0,
                    'parts': [2, 3] if backend == 'flat' else [5], 'sample_rate': 2 / 600.0,
                    'fill': ctx.seed + i, 'chunk': 2, 'big': True})
        i += 1
    return out


def self_test():
    A = np.arange(6, dtype=np.int16).reshape(3, 2)
    assert np.array_equal(eager(A, [['rsub', 3], ['mul', 2]]), (3 - A) * 2)
    assert eager(A, [['truediv', 2]]).dtype == np.float64
    assert np.array_equal(eager(A, [['cols', COLS[0]]]), A[:, ::-1])


def explore(ctx):
    self_test()
    depth = 3 if ctx.thorough else 2
    deriv = 4 if ctx.thorough else 3
    ops = alphabet()
    ctx.bounds = {'alphabet': len(ops), 'program_depth': depth, 'tree_derivations': deriv,
                  'tree_ops': len(TREE_OPS), 'roots': '4 backends x 4 dtypes, 5 samples x 3 channels, '
                  'flat in 2 files'}
    ctx.rule = ('state = (root reader, program prefix) for which an eager value exists, or a set of '
                'live readers reached by a derivation history (canonical form: multiset of expressions '
                '+ aliasing pattern of the deferred-op lists); transition = indexing one lazy node with '
                'one row/column expression and comparing value and dtype with the eager expression; '
                'non-trivial = program mixes >= 2 operator classes or changes the dtype, or the tree '
                'holds >= 3 live readers')
    ctx.assumptions = ['floating-point results are compared up to 4 ULP, x128 per further pow/rpow in the program '
                       '(error amplification of composed powers; NumPy evaluates pow and '
                       'division with different SIMD/scalar loops depending on the number of rows), '
                       'NaN/inf positions and dtype exactly; integer results exactly',
                       'when the eager expression on the whole array raises there is no eager value '
                       'and no claim (and its extensions are not explored)',
                       'np.errstate(all=ignore) on both sides', 'scalars are Python int/float']
    cases = []
    for li, lay in enumerate(roots(ctx)):
        for f in range(len(ops)):
            if li >= 16 and not ctx.thorough and (f + li + ctx.seed) % 3:
                continue      # quick: the special roots (beyond the 4 x 4 grid) start from every third op
            cases.append({'kind': 'programs', 'layout': lay, 'first': f, 'depth': depth})
    ctx.run_cases(run_case, cases, chunk=1 if ctx.thorough else 4, sweep='programs')
    cases = [{'kind': 'trees', 'layout': lay, 'derivations': deriv} for lay in roots(ctx)]
    ctx.run_cases(run_case, cases, chunk=1, sweep='derivation-trees')


def replay(record):
    imports()
    return core.replay_case(run_case, record)
