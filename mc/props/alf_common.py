# -*- coding: utf-8 -*-
"""Shared machinery of C13 / C14: generate a source dataset (or merge generated probes with
the real Merger), run the real EphysAlfCreator.convert and collect what the oracles need."""
import os
import shutil

import numpy as np

from .. import core
from ..gen import dsgen
from . import merge_common as mc_


def imports():
    core.import_phylib('phylib.io.alf', 'phylib.io.merge')


def model_view(m):
    return {
        'spike_times': np.array(m.spike_times), 'spike_samples': np.array(m.spike_samples),
        'spike_clusters': np.array(m.spike_clusters), 'spike_templates': np.array(m.spike_templates),
        'channel_positions': np.array(m.channel_positions),
        'channel_mapping': np.array(m.channel_mapping),
        'n_templates': int(m.n_templates),
    }


def read_out(out_dir):
    out = {}
    if not os.path.isdir(str(out_dir)):
        return out
    for fn in sorted(os.listdir(str(out_dir))):
        fp = os.path.join(str(out_dir), fn)
        if fn.endswith('.npy'):
            try:
                out[fn] = np.load(fp)
            except Exception as e:
                out[fn] = e
        elif fn.endswith('.csv'):
            with open(fp) as f:
                out[fn] = f.read().split('\n')
        else:
            out[fn] = 'file'
    return out


def run_convert(spec=None, probes=None, label='', factor=1, extra_files=(), same_dir=False, fill=0,
                twice=False, out_variant=None, stale_out=False, symlinked=False):
    """Build the source (a generated dataset, or a merge of generated probes), convert it, collect.

    Returns a dict: truth / truths, src_before, src_after, out (arrays by file name), exception,
    returned (view of the returned model), reloaded (view of a fresh load_model of the output)."""
    from phylib.io.alf import EphysAlfCreator
    from phylib.io.model import load_model
    res = {'exception': None, 'returned': None, 'reloaded': None, 'stage': 'build'}
    with core.Scratch() as d:
        if probes is None:
            src = d / 'src'
            res['truth'] = dsgen.make_dataset(src, spec)
            params = res['truth']['params_path']
        else:
            from phylib.io.merge import Merger
            subdirs, truths = [], []
            for i, p in enumerate(probes):
                sd = d / ('probe%d' % i)
                truths.append(dsgen.make_dataset(sd, mc_.probe_spec(p, fill)))
                subdirs.append(sd)
            src = d / 'src'
            if len(probes) >= 2:
                # the probes were already merged once, into another directory: merging reads them only
                m0_ = Merger(subdirs, d / 'merged-before').merge()
                m0_.close()
            mm = Merger(subdirs, src).merge()
            mm.close()
            res['truths'] = truths
            params = str(src / 'params.py')
        for name, content in extra_files:
            with open(str(src / name), 'wb') as f:
                f.write(content)
        if symlinked:
            # the dataset directory links to the sorter's per-spike vectors instead of holding them
            os.makedirs(str(d / 'sorter_output'))
            for name in ('spike_clusters.npy', 'spike_templates.npy', 'amplitudes.npy'):
                if os.path.exists(str(src / name)):
                    shutil.move(str(src / name), str(d / 'sorter_output' / name))
                    os.symlink(str(d / 'sorter_output' / name), str(src / name))
        res['src_files'] = {fn: np.load(str(src / fn)) for fn in os.listdir(str(src))
                            if fn.endswith('.npy') and not fn.startswith('pc_features')}
        if same_dir == 'dotdot':
            out_dir = src / '..' / src.name           # another spelling of the source directory
        elif same_dir == 'symlink':
            out_dir = d / 'link-to-src'
            os.symlink(str(src), str(out_dir))
        elif same_dir == 'relative':
            out_dir = type(src)(os.path.relpath(str(src), os.getcwd()))
        else:
            # a legal output directory: elsewhere, or next to the source under a name that begins
            # with / is a prefix of the source's name, or given as a string
            out_dir = src if same_dir else [d / 'alf', d / 'src_alf', d / 'sr', str(d / 'alf')][int(fill if out_variant is None else out_variant) % 4]
        m0 = load_model(params)
        m0.close()
        m = load_model(params)       # second open: reads whatever the first one cached on disk
        # hashed after loading: load_model itself may add the inverse whitening matrix (see C04)
        before = dsgen.sha1_dir(src)
        res['src_view'] = model_view(m)
        res['src_extra'] = {'n_closest': int(m.n_closest_channels), 'nan_idx': [int(x) for x in
                                                                                 np.asarray(m.nan_idx).tolist()],
                            'n_clusters': int(m.n_clusters),
                            'cluster_waveforms': np.array(m.sparse_clusters.data),
                            'channel_probes': np.array(m.channel_probes),
                            'wmi': np.array(m.wmi), 'curated': bool(len(m.merge_map))}
        res['stage'] = 'convert'
        try:
            c = EphysAlfCreator(m)
            if twice:
                # a first conversion with the same creator into another directory, with another label
                # and factor: the second conversion must not inherit anything from it
                r0 = c.convert(d / 'alf_first', label='first' if not label else '', ampfactor=3)
                if r0 is not None:
                    r0.close()
            if stale_out and not same_dir:
                # the output directory already exists and holds cluster tables of an older export
                # (other values): converting with force=True replaces them
                os.makedirs(str(out_dir), exist_ok=True)
                for fn, arr in (('clusters.channels.npy', np.zeros(2, dtype=np.int64)),
                                ('clusters.peakToTrough.npy', np.full(2, 7.5)),
                                ('clusters.amps.npy', np.full(2, -1.0)),
                                ('spikes.depths.npy', np.zeros(3))):
                    np.save(os.path.join(str(out_dir), fn), arr)
                ret = c.convert(out_dir, force=True, label=label, ampfactor=factor)
            else:
                # the default values (no label, unit factor 1) are passed explicitly in one half of
                # the cases and left to the signature in the other half
                explicit = int(fill if out_variant is None else out_variant) % 2 == 1
                ckw = {}
                if label or explicit:
                    ckw['label'] = label
                if factor != 1 or explicit:
                    ckw['ampfactor'] = factor
                ret = c.convert(out_dir, **ckw)
            if ret is not None:
                res['returned'] = model_view(ret)
                ret.close()
        except Exception as e:
            import traceback
            res['exception'] = e
            res['traceback'] = traceback.format_exc()[-900:]
        finally:
            m.close()
        res['src_before'] = before
        res['src_after'] = dsgen.sha1_dir(src)
        if not same_dir:
            res['out'] = read_out(out_dir)
            out_dir = type(src)(out_dir)
            if res['exception'] is None and os.path.exists(str(out_dir / 'params.py')):
                try:
                    m2 = load_model(out_dir / 'params.py')
                    res['reloaded'] = model_view(m2)
                    m2.close()
                except Exception as e:
                    res['reloaded'] = e
    return res
