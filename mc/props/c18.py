# -*- coding: utf-8 -*-
"""C18 -- JSON, TSV/CSV and parameter-file serialisation round-trips values and types.

space mode: every dictionary / table / parameter file of a finite alphabet is saved
with the real phylib writer, loaded with the real reader and compared with the value
the statement promises.
"""
import itertools

import numpy as np

from .. import core
from ..util import deep_equal, describe

PROP = 'C18'


def imports():
    core.import_phylib('phylib.utils._misc', 'phylib.io.model')


# ---------------------------------------------------------------------------
# JSON alphabet
# ---------------------------------------------------------------------------

KEYS = {
    'i0': 0, 'i7': 7, 'ineg1': -1, 'ibig': 2 ** 40, 'npint3': np.int64(3),
    'ihuge': 2 ** 64 + 5,           # an integer that no 64-bit type holds
    's_a': 'a', 's_a_b': 'a b', 's_e': u'\xe9', 's_neg': '-x', 's_mixed': 'a1',
}
# expected key after the round trip (integers come back as Python int)
KEY_BACK = {k: (int(v) if not isinstance(v, str) else v) for k, v in KEYS.items()}

DTYPES = ['bool', 'int8', 'int16', 'int32', 'int64', 'uint8', 'uint16', 'uint32', 'uint64',
          'float16', 'float32', 'float64', 'complex64', 'complex128', '>i4', '>f8']
SHAPES = [(), (0,), (1,), (10,), (11,), (2, 3), (0, 3), (2, 3, 2)]
LAYOUTS = ['C', 'F', 'strided', 'transposed', 'reversed']


def make_array(dtype, shape, layout, seed=0):
    dt = np.dtype(dtype)
    shape = tuple(shape)

    def base(shp):
        n = int(np.prod(shp)) if len(shp) else 1
        v = (np.arange(n) * 3 + seed + 1) % 23 - 5
        if dt.kind == 'b':
            a = (v % 2 == 0)
        elif dt.kind == 'u':
            a = np.abs(v)
        elif dt.kind == 'f':
            a = v / 4.0
            if n >= 3:
                a[1] = np.nan
                a[2] = -0.0
        elif dt.kind == 'c':
            a = v / 2.0 + 1j * (v % 3)
        else:
            a = v
        return np.asarray(a).astype(dt).reshape(shp)

    if layout == 'C' or len(shape) == 0:
        return np.ascontiguousarray(base(shape)) if len(shape) else base(shape)
    if layout == 'F':
        return np.asfortranarray(base(shape))
    if layout == 'strided':
        big = base(shape[:-1] + (2 * shape[-1],))
        return big[..., ::2]
    if layout == 'transposed':
        return base(shape[::-1]).T
    if layout == 'reversed':
        return base(shape)[::-1]
    raise ValueError(layout)


PLAIN_VALUES = {
    'none': None, 'true': True, 'false': False, 'zero': 0, 'neg3': -3, 'big': 2 ** 40,
    'f1_5': 1.5, 'fnegzero': -0.0, 'f1e_7': 1e-7, 'str_x': 'x', 'str_empty': '', 'str_e': u'\xe9',
    'str_digits': '12', 'list_empty': [], 'list_mixed': [1, 'a', None, [2], 2.5, True],
    'dict_nested': {'k': 1, 'l': [1], 'm': {'n': None}},
    # only *top-level* keys that denote integers become integers: nested string keys stay strings
    'dict_digit_keys': {'12': 'good', '-4': 'x', 'm': {'7': 1}}, 'list_of_dicts': [{'3': 1}, {'a': {'0': None}}],
    'np_float32': np.float32(1.5), 'np_float64': np.float64(-2.25), 'np_int64': np.int64(3),
    'np_int8': np.int8(-4), 'np_uint16': np.uint16(9), 'np_bool': np.bool_(True),
    'list_np': [np.int64(2), np.float32(0.5)],
}


def value_from_name(name, seed=0):
    if name.startswith('arr:'):
        _, dtype, shape, layout = name.split(':')
        shape = tuple(int(s) for s in shape.split('x') if s != '')
        return make_array(dtype, shape, layout, seed)
    return PLAIN_VALUES[name]


def arr_name(dtype, shape, layout):
    return 'arr:%s:%s:%s' % (dtype, 'x'.join(str(s) for s in shape), layout)


def expected_json_value(v):
    """What the statement promises for a value after save+load."""
    if isinstance(v, np.ndarray):
        if v.ndim == 1 and v.shape[0] <= 10:
            return v.tolist()
        return np.array(v, dtype=v.dtype, order='C')
    if isinstance(v, np.generic):
        return v.item()
    if isinstance(v, list):
        return [expected_json_value(x) for x in v]
    if isinstance(v, dict):
        return {k: expected_json_value(x) for k, x in v.items()}
    return v


def value_kind(name):
    if name.startswith('arr:'):
        _, dtype, shape, layout = name.split(':')
        dt = np.dtype(dtype)
        dims = [int(s) for s in shape.split('x') if s != '']
        if len(dims) == 0:
            rank = '0d'
        elif len(dims) == 1:
            rank = '1d<=10' if dims[0] <= 10 else '1d>10'
        else:
            rank = 'nd'
        kind = {'b': 'bool', 'i': 'int', 'u': 'uint', 'f': 'float', 'c': 'complex'}[dt.kind]
        if dt.byteorder == '>':
            kind += ',bigendian'
        return 'array,%s,%s' % (kind, rank)
    return name


def key_kind(kname):
    k = KEYS[kname]
    if isinstance(k, str):
        return 'str'
    if isinstance(k, np.generic):
        return 'npint'
    return 'negint' if k < 0 else 'int'


def json_cases(tier, seed):
    cases = []
    # A: every array under a str key and an int key
    for dtype in DTYPES:
        for shape in SHAPES:
            for layout in LAYOUTS:
                if len(shape) == 0 and layout != 'C':
                    continue
                if len(shape) == 1 and layout in ('F', 'transposed'):
                    continue  # identical to C for rank 1
                for key in ('s_a', 'i7'):
                    cases.append({'kind': 'json', 'entries': [[key, arr_name(dtype, shape, layout)]]})
    # B: every plain value under every key
    for key in KEYS:
        for vname in PLAIN_VALUES:
            cases.append({'kind': 'json', 'entries': [[key, vname]]})
    # C: every 2-entry dictionary over the keys (no int/str collision in the alphabet),
    #    values rotating through plain values and a small array family
    fam = list(PLAIN_VALUES) + [arr_name(d, s, 'C') for d in ('int16', 'float32', 'uint8')
                                for s in ((3,), (11,), (2, 3))]
    keys = list(KEYS)
    i = seed
    pairs = list(itertools.combinations(keys, 2))
    reps = 6 if tier == 'thorough' else 2
    for rep in range(reps):
        for (k1, k2) in pairs:
            if KEY_BACK[k1] == KEY_BACK[k2]:
                continue
            v1 = fam[i % len(fam)]
            v2 = fam[(i * 7 + 3) % len(fam)]
            i += 1
            cases.append({'kind': 'json', 'entries': [[k1, v1], [k2, v2]]})
    # D: empty dictionary
    cases.append({'kind': 'json', 'entries': []})
    if tier == 'thorough':
        # three-entry dictionaries over a key subset x array values of every dtype
        for dtype in DTYPES:
            for (k1, k2, k3) in itertools.combinations(['i0', 'ineg1', 'ibig', 's_a', 's_e'], 3):
                cases.append({'kind': 'json', 'entries': [
                    [k1, arr_name(dtype, (11,), 'reversed')], [k2, arr_name(dtype, (2, 3), 'F')],
                    [k3, arr_name(dtype, (3,), 'C')]]})
    return cases


def run_json(case, acc, order):
    from phylib.utils._misc import save_json, load_json
    seed = case.get('seed', 0)
    data, expected = {}, {}
    for kname, vname in case['entries']:
        v = value_from_name(vname, seed)
        data[KEYS[kname]] = v
        expected[KEY_BACK[kname]] = expected_json_value(v)
    acc.state()
    nontrivial = any(vn.startswith('arr:') or vn.startswith('np_') or vn.startswith('list') or
                     vn.startswith('dict') for _, vn in case['entries']) or \
        any(key_kind(k) != 'str' for k, _ in case['entries'])
    with core.Scratch() as d:
        path = d / 'sub' / 'deeper' / 'f.json'      # two directory levels that do not exist yet
        try:
            # the file already exists with other, longer content: a save replaces it entirely
            save_json(path, {'zzz': list(range(40)), 'k': 'x' * 300})
            load_json(path)
            save_json(path, data)
            back = load_json(path)
        except Exception as e:
            back = e
    if isinstance(back, BaseException):
        feats = sorted(set(value_kind(vn) for _, vn in case['entries']))
        kf = sorted(set(key_kind(k) for k, _ in case['entries']))
        # attribute the failure to the smallest sub-dictionary that shows it
        culprit = None
        if len(case['entries']) > 1:
            for kname, vname in case['entries']:
                with core.Scratch() as d1:
                    try:
                        save_json(d1 / 'one.json', {KEYS[kname]: value_from_name(vname, seed)})
                        load_json(d1 / 'one.json')
                    except Exception as e1:
                        if type(e1) is type(back):
                            culprit = value_kind(vname)
                            break
        sig = '%s/json/%s/%s' % (PROP, feats[0] if len(case['entries']) == 1 else (
            culprit or 'multi(%s|%s)' % (','.join(kf), ','.join(feats))), type(back).__name__)
        acc.step(nontrivial, 'json:exception')
        acc.violation(sig, core.make_record(PROP, 'json', sig, case=case,
                                            expected=describe_expected(expected),
                                            observed=describe(back)), order)
        return
    ok = True
    if not isinstance(back, dict):
        ok = False
        sig = '%s/json/result-not-dict/type' % PROP
    else:
        bkeys = set((type(k).__name__, k) for k in back)
        ekeys = set((type(k).__name__, k) for k in expected)
        if bkeys != ekeys:
            ok = False
            kf = sorted(set(key_kind(k) for k, _ in case['entries']
                            if (type(KEY_BACK[k]).__name__, KEY_BACK[k]) not in bkeys))
            sig = '%s/json/key=%s/keyset' % (PROP, ','.join(kf) or 'extra')
        else:
            for kname, vname in case['entries']:
                k = KEY_BACK[kname]
                if not deep_equal(back[k], expected[k]):
                    ok = False
                    b, e = back[k], expected[k]
                    if type(b) is not type(e):
                        what = 'type'
                    elif isinstance(b, np.ndarray) and b.dtype != e.dtype:
                        what = 'dtype'
                    elif isinstance(b, np.ndarray) and b.shape != e.shape:
                        what = 'shape'
                    else:
                        what = 'value'
                    sig = '%s/json/%s/%s' % (PROP, value_kind(vname), what)
                    break
    acc.step(nontrivial, 'json:ok' if ok else 'json:mismatch')
    if order % 997 == 0:
        acc.sample({'json': case['entries']})
    if not ok:
        acc.violation(sig, core.make_record(PROP, 'json', sig, case=case,
                                            expected=describe_expected(expected),
                                            observed=describe_expected(back)), order)


def describe_expected(d):
    if isinstance(d, dict):
        return {repr(k): describe(v) for k, v in d.items()}
    return describe(d)


# ---------------------------------------------------------------------------
# tables
# ---------------------------------------------------------------------------

CELLS = {
    'absent': None, 'i3': 3, 'ineg2': -2, 'ibig': 2 ** 40, 'i0': 0, 'f1_25': 1.25, 'f1e_7': 1e-7,
    'f0': 0.0, 'fneg': -12.34567, 'f3_0': 3.0,
    's_x': 'x', 's_x_y': 'x y', 's_comma': 'a,b', 's_tab': 'a\tb', 's_q': 'q"r', 's_apos': "it's",
    's_quote': '"', 's_e': u'\xe9', 's_empty': '',
    's_pad': ' x ',        # blanks at both ends are part of a string value
}
for _k, _v in CELLS.items():
    if isinstance(_v, str) and _v != '':
        for _f in (int, float):
            try:
                _f(_v)
            except ValueError:
                continue
            raise AssertionError('cell %r is a numeric literal' % _v)

FIELDS = ['cluster_id', 'a', 'b']


def expected_cell(v, precision):
    if v is None or v == '':
        return None
    if isinstance(v, float):
        return float(('%.' + str(precision) + 'f') % v)
    return v


def table_cases(tier, seed):
    cells = list(CELLS)
    rows = [r for r in itertools.product(cells, repeat=3)]
    cases = []
    # (1) every single row, both delimiters, default options
    for ext in ('tsv', 'csv'):
        for r in rows:
            if sum(1 for c in r if c != 'absent') < 2:
                continue
            cases.append({'kind': 'table', 'ext': ext, 'rows': [list(r)], 'first': None, 'prec': 4})
    # (2) every pair of rows over a reduced cell alphabet, with options
    red = ['absent', 'i3', 'f1_25', 's_comma', 's_tab', 's_q', 's_empty', 'i0']
    if tier == 'thorough':
        red = red + ['f1e_7', 's_quote', 'ibig']
    rrows = [r for r in itertools.product(red, repeat=3)]
    opts = [(None, 4), ('cluster_id', 4), ('b', 2)]
    n = 0
    for ext in ('tsv', 'csv'):
        for r1 in rrows:
            for r2 in rrows:
                present = set(i for r in (r1, r2) for i, c in enumerate(r) if c != 'absent')
                if len(present) < 2:
                    continue
                first, prec = opts[(n + seed) % 3]
                n += 1
                if tier == 'quick' and (n % 4) != (seed % 4):
                    # quick: a fixed quarter (rotating with the seed) of the pair product
                    continue
                cases.append({'kind': 'table', 'ext': ext, 'rows': [list(r1), list(r2)],
                              'first': first, 'prec': prec})
    # (2b) long tables: a column that first appears after 1000 / 1001 identical rows
    for ext in ('tsv', 'csv'):
        for rep in (1000, 1001):
            cases.append({'kind': 'table', 'ext': ext, 'rows': [['i3', 'f1_25', 'absent'], ['i0', 'absent', 's_q']],
                          'repeat_first': rep, 'first': [None, 'cluster_id'][rep % 2], 'prec': 4})
    # (3) three rows, tiny alphabet (thorough)
    if tier == 'thorough':
        tiny = ['absent', 'i3', 's_comma']
        trows = [r for r in itertools.product(tiny, repeat=3)]
        for ext in ('tsv', 'csv'):
            for r1 in trows:
                for r2 in trows:
                    for r3 in trows:
                        present = set(i for r in (r1, r2, r3) for i, c in enumerate(r)
                                      if c != 'absent')
                        if len(present) < 2:
                            continue
                        cases.append({'kind': 'table', 'ext': ext,
                                      'rows': [list(r1), list(r2), list(r3)],
                                      'first': 'cluster_id', 'prec': 4})
    return cases


def run_table(case, acc, order):
    from phylib.utils._misc import write_tsv, read_tsv
    rows = []
    crows = case['rows']
    if case.get('repeat_first'):
        crows = [crows[0]] * case['repeat_first'] + list(crows[1:])
    for r in crows:
        row = {}
        for f, c in zip(FIELDS, r):
            if c != 'absent':
                row[f] = CELLS[c]
        rows.append(row)
    prec = case['prec']
    expected = []
    for row in rows:
        e = {}
        for f, v in row.items():
            ev = expected_cell(v, prec)
            if ev is not None:
                e[f] = ev
        expected.append(e)
    fields = set().union(*rows)
    acc.state()
    cellset = set(c for r in case['rows'] for c in r)
    nontrivial = bool(cellset & {'s_comma', 's_tab', 's_q', 's_quote', 'absent', 's_empty',
                                 'f1e_7', 'fneg'})
    with core.Scratch() as d:
        path = d / 'tables' / 'new' / ('t.' + case['ext'])     # (missing directories are created)
        try:
            kwargs = {}
            if case['first'] is not None:
                kwargs['first_field'] = case['first']
            if prec != 4:
                kwargs['n_significant_figures'] = prec
            write_tsv(path, [{'cluster_id': 9, 'a': 'old', 'b': 'y' * 200, 'zz': 1}] * 3)   # stale content
            read_tsv(path)         # ... which has been read once (write, read, write, read on one path)
            write_tsv(path, rows, **kwargs)
            back = read_tsv(path)
            header = path.read_text(encoding='utf-8').split('\n')[0].rstrip('\r')
        except Exception as e:
            back = e
    if isinstance(back, BaseException):
        sig = '%s/table/%s/%s' % (PROP, case['ext'], type(back).__name__)
        acc.step(nontrivial, 'table:exception')
        acc.violation(sig, core.make_record(PROP, 'table', sig, case=case, expected=expected,
                                            observed=describe(back)), order)
        return
    sig = None
    if not deep_equal(back, expected):
        # which cell kind is responsible?
        bad = 'rows'
        if isinstance(back, list) and len(back) == len(expected):
            for b, e, r in zip(back, expected, crows):
                for f, c in zip(FIELDS, r):
                    if not deep_equal(b.get(f, None) if isinstance(b, dict) else None,
                                      e.get(f, None)):
                        bad = 'cell=%s' % c
                        break
                if bad != 'rows':
                    break
        sig = '%s/table/%s/%s/value' % (PROP, case['ext'], bad)
        if len(expected) > 20:
            expected, back = expected[-3:], (back[-3:] if isinstance(back, list) else back)
    elif case['first'] in fields:
        delim = '\t' if case['ext'] == 'tsv' else ','
        if header.split(delim)[0] != case['first']:
            sig = '%s/table/%s/first-field/header' % (PROP, case['ext'])
    acc.step(nontrivial, 'table:ok' if sig is None else 'table:mismatch')
    if order % 4999 == 0:
        acc.sample({'table': case})
    if sig:
        acc.violation(sig, core.make_record(PROP, 'table', sig, case=case, expected=expected,
                                            observed=back), order)


IDS = [0, 3, 10, 2 ** 40, 2 ** 53 + 1]      # the last: an id that no double holds exactly


def simple_cases(tier, seed):
    cells = [c for c in CELLS if c not in ('absent', 's_empty')]
    cases = []
    for ext in ('tsv', 'csv'):
        for n in (0, 1, 2, 3):
            for ids in itertools.combinations(IDS, n):
                for vals in itertools.product(cells, repeat=n):
                    if n == 3 and tier == 'quick' and (hash_small(vals) + seed) % 8:
                        continue
                    # ids are inserted in reverse order: the writer must sort them
                    cases.append({'kind': 'simple', 'ext': ext, 'ids': list(ids)[::-1],
                                  'vals': list(vals)[::-1]})
    return cases


def hash_small(t):
    h = 0
    for x in t:
        h = (h * 31 + sum(ord(c) for c in x)) % 1000003
    return h


def run_simple(case, acc, order):
    from phylib.utils._misc import _write_tsv_simple, _read_tsv_simple
    data = {i: CELLS[v] for i, v in zip(case['ids'], case['vals'])}
    acc.state()
    nontrivial = len(data) >= 2 or any(isinstance(v, str) for v in data.values())
    with core.Scratch() as d:
        path = d / ('cluster_f.' + case['ext'])
        try:
            _write_tsv_simple(path, 'g', {i: 'stale' * 20 for i in range(6)})     # stale content
            _read_tsv_simple(path)
            _write_tsv_simple(path, 'f', data)
            back = _read_tsv_simple(path)
            # the model-level reader of the same file: {field: {id: value}}, every id present
            from phylib.io.model import load_metadata, save_metadata
            md = load_metadata(path)
            if data and not (isinstance(md, dict) and list(md) == ['f'] and deep_equal(md['f'], data)):
                back = ('load_metadata', md)
            # the model-level writer: a table written over an older one of the same field replaces it
            path2 = d / ('cluster_h.' + case['ext'])
            save_metadata(path2, 'f', {i: 'old' for i in (0, 3, 10, 77)})
            save_metadata(path2, 'f', data)
            back2 = _read_tsv_simple(path2)
            if not (isinstance(back2, tuple) and back2[0] == 'f' and deep_equal(back2[1], data)):
                back = ('save_metadata-over-older-table', back2)
        except Exception as e:
            back = e
    sig = None
    expected = ('f', data)
    if isinstance(back, BaseException):
        sig = '%s/simple/%s/%s' % (PROP, case['ext'], type(back).__name__)
    elif not (isinstance(back, tuple) and len(back) == 2 and back[0] == 'f' and
              deep_equal(back[1], data)):
        bad = 'table'
        if isinstance(back, tuple) and len(back) == 2 and isinstance(back[1], dict):
            for i, v in zip(case['ids'], case['vals']):
                if not deep_equal(back[1].get(i), data[i]):
                    bad = 'cell=%s' % v
                    break
        sig = '%s/simple/%s/%s/value' % (PROP, case['ext'], bad)
    acc.step(nontrivial, 'simple:ok' if sig is None else 'simple:bad')
    if sig:
        acc.violation(sig, core.make_record(PROP, 'simple', sig, case=case, expected=expected,
                                            observed=describe(back) if isinstance(back, BaseException)
                                            else back), order)


# ---------------------------------------------------------------------------
# parameter files
# ---------------------------------------------------------------------------

PARAM_VALUES = {
    'true': True, 'false': False, 'i0': 0, 'i384': 384, 'ineg': -7, 'f30000': 30000.0,
    'f_small': 2.5e-5, 'none': None, 'list_int': [1, 2, 3], 'list_mixed': [1, 2.5, None, True],
    'list_empty': [], 'list_str': ['a.dat', 'b.dat'],
    's_plain': 'int16', 's_path': 'data/raw file.dat', 's_empty': '', 's_apos': "it's",
    's_dquote': 'say "hi"', 's_backslash_n': 'C:\\new\\table.dat', 's_backslash': 'a\\b',
    's_trailing_bs': 'dir\\', 's_hash': 'a#b', 's_percent': '100%s', 's_unicode': u'\xe9.dat',
    'np_float64': np.float64(30000.0), 'np_int64': np.int64(385), 'np_bool': np.bool_(True),
    'np_float32': np.float32(2.5),
}
PARAM_KEYS = ['dat_path', 'n_channels_dat', 'dtype', 'offset', 'sample_rate', 'hp_filtered']


def param_cases(tier, seed):
    cases = []
    names = list(PARAM_VALUES)
    for v in names:
        cases.append({'kind': 'params', 'entries': [['dat_path', v]]})
    for v1, v2 in itertools.product(names, repeat=2):
        cases.append({'kind': 'params', 'entries': [['dat_path', v1], ['offset', v2]]})
    if tier == 'thorough':
        for v1, v2, v3 in itertools.product(names, repeat=3):
            cases.append({'kind': 'params',
                          'entries': [['dtype', v1], ['sample_rate', v2], ['hp_filtered', v3]]})
    return cases


def param_kind(vname):
    v = PARAM_VALUES[vname]
    if isinstance(v, str):
        if '\\' in v:
            return 'str,backslash'
        if '"' in v:
            return 'str,dquote'
        return 'str'
    if isinstance(v, list):
        return 'list'
    if isinstance(v, np.generic):
        return 'numpy-scalar'
    return type(v).__name__


def run_params(case, acc, order):
    from phylib.utils._misc import write_python, read_python
    data = {k: PARAM_VALUES[v] for k, v in case['entries']}
    # what must come back: NumPy scalars by value, as the Python number they denote
    expected = {k: (v.item() if isinstance(v, np.generic) else v) for k, v in data.items()}
    acc.state()
    kinds = [param_kind(v) for _, v in case['entries']]
    nontrivial = any(k.startswith('str') or k in ('list', 'numpy-scalar') for k in kinds)
    with core.Scratch() as d:
        path = d / 'params.py'
        try:
            write_python(path, {'old_key': 'x' * 300, 'other': [1, 2, 3]})    # stale content
            read_python(path)
            write_python(path, data)
            back = read_python(path)
        except Exception as e:
            back = e
    sig = None
    if isinstance(back, BaseException):
        bad = sorted(set(kinds), key=lambda k: (not k.startswith('str,'), k))[0]
        sig = '%s/params/%s/%s' % (PROP, bad, type(back).__name__)
    elif not deep_equal(back, expected):
        bad = 'dict'
        if isinstance(back, dict):
            for k, v in case['entries']:
                if not deep_equal(back.get(k), expected[k]):
                    bad = param_kind(v)
                    break
        sig = '%s/params/%s/value' % (PROP, bad)
    acc.step(nontrivial, 'params:ok' if sig is None else 'params:bad')
    if sig:
        acc.violation(sig, core.make_record(
            PROP, 'params', sig, case=case, expected=expected,
            observed=describe(back) if isinstance(back, BaseException) else back), order)


# ---------------------------------------------------------------------------

RUNNERS = {'json': run_json, 'table': run_table, 'simple': run_simple, 'params': run_params}


def run_case(case, acc, order):
    RUNNERS[case['kind']](case, acc, order)


def explore(ctx):
    seed = ctx.seed
    ctx.rule = ('state = one dictionary / table / parameter dictionary built from the alphabets; '
                'transition = save with the phylib writer then load with the phylib reader, compared '
                'type-strictly with the value the statement promises; non-trivial = contains an '
                'ndarray, NumPy scalar, nested container or non-str key (json), a quoted / delimiter / '
                'absent / rounded cell (tables), >=2 ids or a string (two-column), a string or list '
                '(parameter file)')
    ctx.assumptions = ['json/csv modules of the standard library are the trusted parsers',
                       'string cells are rejected by both int() and float() (checked at import)',
                       'no dictionary holds an int key and the str of the same int']
    ctx.bounds = {'json_dtypes': DTYPES, 'json_shapes': [list(s) for s in SHAPES],
                  'json_layouts': LAYOUTS, 'json_keys': list(KEYS), 'cells': list(CELLS),
                  'ids': IDS, 'param_values': list(PARAM_VALUES)}
    js = json_cases(ctx.tier, seed)
    for c in js:
        c['seed'] = seed
    ctx.run_cases(run_case, js, sweep='json')
    ctx.run_cases(run_case, table_cases(ctx.tier, seed), sweep='tables')
    ctx.run_cases(run_case, simple_cases(ctx.tier, seed), sweep='two-column')
    ctx.run_cases(run_case, param_cases(ctx.tier, seed), sweep='params')


def replay(record):
    imports()
    return core.replay_case(run_case, record)
