# -*- coding: utf-8 -*-
"""C19 -- event dispatch follows registration order, sender filters and silencing;
progress reporters announce completion once per crossing.

19a  explicit-state BFS over the product (real EventEmitter x list reference) to a fixpoint
     for a registration list bounded to 3 entries.
19b  explicit-state BFS over the product (real ProgressReporter x `armed` reference) to a
     fixpoint for values/maxima in 0..N; and the TLA+ model tla/Progress.tla: TLC enumerates
     the complete history tree to depth D, checks the model invariants, and every node of the
     dump is replayed against the real reporter.
"""
import itertools
import os
import re
import subprocess

from .. import core

PROP = 'C19'

EVENTS = ['next', 'f']      # 'next': an event name that begins with the letters of the 'on_' prefix
SENDERS = ['A', 'B']
FILTERS = [None, 'A', 'B']
LABELS = ['c0', 'c1', 'cL']          # cL is registered with last=True
STYLES = ['name', 'explicit', 'partial']


def imports():
    core.import_phylib('phylib.utils.event')


# ---------------------------------------------------------------------------
# 19a: reference model
# ---------------------------------------------------------------------------

class RefBus(object):
    def __init__(self):
        self.regs = []          # (event, filter, label)
        self.depth = 0
        self.flag = False

    def silenced(self):
        return self.depth > 0 or self.flag

    def emit(self, event, sender, single):
        if self.silenced():
            return None, []
        m = [r for r in self.regs if r[0] == event and (r[1] is None or r[1] == sender)]
        order = [r for r in m if r[2] != 'cL'] + [r for r in m if r[2] == 'cL']
        if single:
            order = order[:1]
        calls = [(r[2], r[0], sender) for r in order]
        return order, calls

    def key(self):
        return (tuple(self.regs), self.depth, self.flag)


class Sender(object):
    def __init__(self, name):
        self.name = name

    def __repr__(self):
        return 'Sender(%s)' % self.name

    # senders compare by value (two views of the same thing are equal without being one object)
    def __eq__(self, other):
        return isinstance(other, Sender) and other.name == self.name

    def __ne__(self, other):
        return not self.__eq__(other)

    def __hash__(self):
        return hash(('Sender', self.name))


class EmptySender(Sender):
    """A sender that is falsy (an empty container-like object, e.g. a view without items): a sender
    filter is compared with the emitting sender, never tested for truth."""

    def __len__(self):
        return 0


class World(object):
    """A real EventEmitter with recording callbacks and the contexts entered so far."""

    def __init__(self):
        from phylib.utils.event import EventEmitter
        self.em = EventEmitter()
        self.senders = {n: (EmptySender(n) if n == 'B' else Sender(n)) for n in SENDERS}
        self.senders['none'] = None   # an emit without a sender object
        self.log = []
        self.cms = []
        self.funcs = {}
        for lab in LABELS:
            for ev in EVENTS:
                self.funcs[lab, ev] = self._make(lab, ev)

    def _make(self, lab, ev):
        log = self.log

        def cb(sender, *args, **kwargs):
            log.append((lab, ev, sender, args, dict(kwargs)))
            return None if lab == 'c1' else 'ret-%s-%s' % (lab, ev)     # a callback may return None
        cb.__name__ = 'on_' + ev
        cb.__qualname__ = 'on_' + ev
        return cb

    def apply(self, evt, ref):
        """Apply one event to the implementation and the reference; return a mismatch or None."""
        kind = evt[0]
        em = self.em
        if kind == 'connect':
            _, ev, flt, lab, style = evt
            f = self.funcs[lab, ev]
            kw = {'last': True} if lab == 'cL' else {}
            s = self.senders[flt] if flt else None
            if style == 'name':
                r = em.connect(f, sender=s, **kw)
            elif style == 'explicit':
                r = em.connect(f, event=ev, sender=s, **kw)
            else:
                r = em.connect(event=ev, sender=s, **kw)(f)
            ref.regs.append((ev, flt, lab))
            if r is not f:
                return ('connect-return', 'the function', repr(r))
        elif kind == 'unconnect_cb':
            lab = evt[1]
            em.unconnect(*[self.funcs[lab, ev] for ev in EVENTS])
            ref.regs = [r for r in ref.regs if r[2] != lab]
        elif kind == 'unconnect_sender':
            em.unconnect(self.senders[evt[1]])
            ref.regs = [r for r in ref.regs if r[1] != evt[1]]
        elif kind == 'reset':
            em.reset()
            ref.regs = []
        elif kind == 'enter':
            cm = em.silent()
            cm.__enter__()
            self.cms.append(cm)
            ref.depth += 1
        elif kind == 'exit':
            cm = self.cms.pop()
            cm.__exit__(None, None, None)
            ref.depth -= 1
        elif kind == 'set_silent':
            em.set_silent(evt[1])
            ref.flag = evt[1]
        elif kind == 'emit':
            _, ev, sname, single = evt
            del self.log[:]
            kw = {'k': 2}
            if single:
                kw['single'] = True
            emitted = self.senders[sname]
            if emitted is not None and not single:
                # an object equal to the registered filter without being it: the callbacks receive the
                # emitting object
                emitted = type(emitted)(emitted.name)
            try:
                ret = em.emit(ev, emitted, (3, 4), **kw)     # a tuple as positional argument
            except Exception as e:
                return ('emit-exception', 'no exception', '%s: %s' % (type(e).__name__, e))
            order, calls = ref.emit(ev, sname, single)
            got_calls = [(c[0], c[1], c[2].name if isinstance(c[2], Sender) else
                          ('none' if c[2] is None else repr(c[2]))) for c in self.log]
            if ref.silenced():
                if self.log:
                    return ('called-while-silenced', [], got_calls)
                return None
            if got_calls != [(l, e_, s_) for (l, e_, s_) in calls]:
                exp_set = sorted(calls)
                if sorted(got_calls) == exp_set:
                    what = 'call-order'
                elif len(got_calls) > len(calls):
                    what = 'extra-calls'
                else:
                    what = 'missing-or-wrong-calls'
                return (what, calls, got_calls)
            for c in self.log:
                if c[3] != ((3, 4),) or c[4] != {'k': 2}:
                    return ('arguments', {'args': ((3, 4),), 'kwargs': {'k': 2}},
                            {'args': c[3], 'kwargs': c[4]})
                if c[2] is not emitted:
                    return ('sender-object', sname, repr(c[2]))
            results = [None if l == 'c1' else 'ret-%s-%s' % (l, e_) for (l, e_, s_) in calls]
            if single:
                if calls and ret != results[0]:
                    return ('single-return', results[0], repr(ret))
            else:
                if ret != results:
                    return ('return-value', results, repr(ret))
        else:
            raise ValueError(evt)
        return None

    def impl_key(self):
        try:
            cbs = tuple((e, s.name if isinstance(s, Sender) else s,
                         next((lab for (lab, ev), f in self.funcs.items() if f is fn), '?'),
                         bool(kw.get('last'))) for (e, s, fn, kw) in self.em._callbacks)
            return (cbs, bool(self.em.is_silent))
        except Exception:
            return None


class _ModuleShim(object):
    """The module-level functions of phylib.utils.event (the global emitter), looked up at call time."""

    def __getattr__(self, name):
        import phylib.utils.event as evm
        return getattr(evm, name)


class ModuleWorld(World):
    """The same world on the module-level route: event.connect / emit / unconnect / reset / silent /
    set_silent all act on one global emitter."""

    def __init__(self):
        World.__init__(self)
        self.em = _ModuleShim()
        self.em.reset()
        self.em.set_silent(False)


MODULE_ALPHABET = [('connect', 'f', None, 'c0', 'explicit'), ('connect', 'f', None, 'c1', 'partial'),
                   ('unconnect_cb', 'c0'), ('reset',), ('set_silent', True), ('set_silent', False),
                   ('emit', 'f', 'none', False), ('emit', 'f', 'A', False)]


def run_module_route(case, acc, order):
    hist = case['hist']
    w, ref = ModuleWorld(), RefBus()
    acc.state()
    try:
        for i, evt in enumerate(hist):
            mismatch = w.apply(tuple(evt), ref)
            acc.step(evt[0] == 'emit' and i > 0, 'module:' + evt[0])
            if mismatch:
                what, exp, got = mismatch
                sig = '%s/bus-module-level/%s/%s' % (PROP, evt[0], what)
                acc.violation(sig, core.make_record(PROP, 'bus-module', sig, case=case,
                                                    trace=[list(e) for e in hist[:i + 1]], expected=exp,
                                                    observed=got), len(hist))
                break
    finally:
        w.em.reset()
        w.em.set_silent(False)


def enabled(ref, max_regs, styles):
    evs = []
    if len(ref.regs) < max_regs:
        for ev in EVENTS:
            for flt in FILTERS:
                for lab in LABELS:
                    for st in styles:
                        evs.append(('connect', ev, flt, lab, st))
    for lab in LABELS:
        evs.append(('unconnect_cb', lab))
    for s in SENDERS:
        evs.append(('unconnect_sender', s))
    evs.append(('reset',))
    if ref.depth < 2:
        evs.append(('enter',))
    if ref.depth > 0:
        evs.append(('exit',))
    else:
        evs.append(('set_silent', True))
        evs.append(('set_silent', False))
    for ev in EVENTS:
        for s in SENDERS + ['none']:
            for single in (False, True):
                evs.append(('emit', ev, s, single))
    return evs


_CFG = {'max_regs': 3, 'all_styles_upto': 2}


def build(hist):
    w = World()
    ref = RefBus()
    for evt in hist:
        w.apply(tuple(evt), ref)
    return w, ref


def expand_bus(key, hist, acc):
    succ = []
    _, ref0 = build(hist)
    nregs = len(ref0.regs)
    if nregs < _CFG['all_styles_upto']:
        styles = STYLES
    else:
        styles = [STYLES[hash(key) % 3]] if False else [STYLES[(nregs + len(hist)) % 3]]
    for evt in enabled(ref0, _CFG['max_regs'], styles):
        w, ref = build(hist)
        mismatch = w.apply(evt, ref)
        is_emit = evt[0] == 'emit'
        nontrivial = (is_emit and len(ref.regs) >= 2) or ref.silenced() or evt[0].startswith('unconnect')
        acc.step(nontrivial, evt[0])
        if mismatch:
            what, exp, got = mismatch
            ctxf = 'silenced' if ref.silenced() else 'audible'
            sig = '%s/bus/%s/%s/%s' % (PROP, evt[0], ctxf, what)
            acc.violation(sig, core.make_record(PROP, 'bus', sig, trace=list(hist) + [list(evt)],
                                                expected=exp, observed=got), len(hist))
            continue
        ik = w.impl_key()
        if not is_emit and ik is not None:
            # the registration list the emitter holds against the reference list: when they differ,
            # some emit must show it (probed here, without silencing) - and the branch is not
            # extended, otherwise registrations that should have gone accumulate without bound
            impl_regs = [(e, s, lab) for (e, s, lab, _last) in ik[0]]
            if impl_regs != [(e, f, lab) for (e, f, lab) in ref.regs]:
                shown = None
                if not ref.silenced():
                    for pev in EVENTS:
                        for ps in SENDERS + ['none']:
                            shown = w.apply(('emit', pev, ps, False), ref)
                            if shown:
                                break
                        if shown:
                            break
                if shown:
                    what, exp, got = shown
                    sig = '%s/bus/%s/audible/registrations-differ,%s' % (PROP, evt[0], what)
                    acc.violation(sig, core.make_record(
                        PROP, 'bus', sig, trace=list(hist) + [list(evt), ['emit', pev, ps, False]],
                        expected=exp, observed=got), len(hist) + 1)
                else:
                    acc.extra['bus_branches_cut_registrations_differ_unobserved'] += 1
                continue
        k2 = (ref.key(), ik)
        succ.append((k2, list(hist) + [list(evt)]))
    if len(hist) == 3 and hash(key) % 50 == 0:
        acc.sample({'bus_history': hist})
    return succ


# ---------------------------------------------------------------------------
# 19b: progress reporter
# ---------------------------------------------------------------------------

class RefProgress(object):
    def __init__(self):
        self.value, self.vmax, self.armed = 0, 0, True

    def update(self, v):
        if v < self.vmax:
            self.armed = True
        ann = self.armed and v >= self.vmax
        self.value = v
        if ann:
            self.armed = False
        return ann

    def set_max(self, m):
        if m > self.vmax:
            self.armed = True
        self.vmax = m
        return False

    def reset(self, m=None):
        self.value = 0
        if m is not None:
            self.vmax = m
        self.armed = True
        return False


def progress_ops(ref, N):
    ops = []
    if ref.value < N:
        ops.append(('inc',))
    for v in range(N + 1):
        ops.append(('value', v))
    for m in range(N + 1):
        ops.append(('max', m))
    ops.append(('complete',))
    if ref.vmax > 0:
        ops.append(('reset',))
    for m in range(1, N + 1):
        ops.append(('resetmax', m))
    return ops


class ProgressWorld(object):
    def __init__(self):
        import phylib.utils.event as evm
        evm.reset()
        evm.set_silent(False)
        self.evm = evm
        self.pr = evm.ProgressReporter()
        self.completes = []
        self.progress = []
        pr = self.pr

        @evm.connect(sender=pr)
        def on_complete(sender, **kw):
            self.completes.append(1)

        @evm.connect(sender=pr)
        def on_progress(sender, value, value_max, **kw):
            self.progress.append((value, value_max))

        # a reporter as the library itself uses it: with a progress and a completion message (their
        # output goes to a sink); the messages are set after the listeners above were connected
        pr.set_progress_message('working: {progress:.1f}%')
        pr.set_complete_message('done')

    def apply(self, op, ref):
        import contextlib
        import io
        buf = io.StringIO()
        with contextlib.redirect_stdout(buf):
            exp, got = self._apply(op, ref)
        # the completion message is printed once per announcement too (counted in the captured output)
        printed = buf.getvalue().count('done')
        return exp, (got if printed == got else ('%d events, message printed %d times' % (got, printed)))

    def _apply(self, op, ref):
        del self.completes[:]
        pr = self.pr
        k = op[0]
        if k == 'inc':
            pr.increment()
            ann = ref.update(ref.value + 1)
        elif k == 'value':
            pr.value = op[1]
            ann = ref.update(op[1])
        elif k == 'max':
            pr.value_max = op[1]
            ann = ref.set_max(op[1])
        elif k == 'complete':
            pr.set_complete()
            ann = ref.update(ref.vmax)
        elif k == 'reset':
            pr.reset()
            ann = ref.reset()
        elif k == 'resetmax':
            pr.reset(op[1])
            ann = ref.reset(op[1])
        else:
            raise ValueError(op)
        return int(bool(ann)), len(self.completes)

    def impl_key(self):
        return (self.pr.value, self.pr.value_max, bool(getattr(self.pr, '_has_completed', None)))

    def close(self):
        self.evm.reset()


def build_progress(hist):
    w = ProgressWorld()
    ref = RefProgress()
    for op in hist:
        w.apply(tuple(op), ref)
    return w, ref


_PCFG = {'N': 3}


def expand_progress(key, hist, acc):
    succ = []
    _, ref0 = build_progress(hist)
    for op in progress_ops(ref0, _PCFG['N']):
        w, ref = build_progress(hist)
        before = (ref.value, ref.vmax, ref.armed)
        exp, got = w.apply(op, ref)
        nontrivial = exp == 1 or (not before[2])
        acc.step(nontrivial, 'progress:%s' % op[0])
        ok = exp == got and w.pr.value == ref.value and w.pr.value_max == ref.vmax
        if not ok:
            prev = hist[-1][0] if hist else 'init'
            what = 'message-count' if isinstance(got, str) else ('missing-announcement' if got < exp else (
                'extra-announcement' if got > exp else 'value-or-max'))
            sig = '%s/progress/%s-after-%s/%s' % (PROP, op[0], prev, what)
            acc.violation(sig, core.make_record(
                PROP, 'progress', sig, trace=list(hist) + [list(op)],
                expected={'complete_events_for_last_op': exp, 'state_before(value,max,armed)': before},
                observed={'complete_events_for_last_op': got, 'value': w.pr.value,
                          'value_max': w.pr.value_max}), len(hist))
            w.close()
            continue
        k2 = ((ref.value, ref.vmax, ref.armed), w.impl_key())
        w.close()
        succ.append((k2, list(hist) + [list(op)]))
    return succ


# ---------------------------------------------------------------------------
# TLA+ conformance for 19b
# ---------------------------------------------------------------------------

def run_tlc(spec, cfg_text, workdir, extra=()):
    """Run TLC on tla/<spec>.tla with a generated cfg; return (stdout, dump path)."""
    tla_dir = os.path.join(core.VERIF, 'tla')
    os.makedirs(workdir, exist_ok=True)
    for fn in os.listdir(tla_dir):
        if fn.endswith('.tla'):
            with open(os.path.join(tla_dir, fn)) as f, open(os.path.join(workdir, fn), 'w') as g:
                g.write(f.read())
    with open(os.path.join(workdir, spec + '.cfg'), 'w') as f:
        f.write(cfg_text)
    dump = os.path.join(workdir, spec + '_dump')
    cmd = ['tlc', '-workers', '1', '-noGenerateSpecTE', '-deadlock', '-metadir',
           os.path.join(workdir, 'states'), '-dump', dump, '-config', spec + '.cfg'] + list(extra) + \
          [spec + '.tla']
    p = subprocess.run(cmd, cwd=workdir, capture_output=True, text=True, timeout=1500)
    return p.returncode, p.stdout + p.stderr, dump + '.dump'


def parse_dump(path):
    """Parse TLC's plain-text state dump into a list of {var: text} dicts."""
    states = []
    cur = None
    with open(path) as f:
        for line in f:
            line = line.rstrip('\n')
            if line.startswith('State '):
                cur = {}
                states.append(cur)
            elif line.startswith('/\\ ') and cur is not None:
                m = re.match(r'/\\ (\w+) = (.*)$', line)
                if m:
                    cur[m.group(1)] = m.group(2)
                    last = m.group(1)
            elif line.strip() and cur is not None and 'last' in dir():
                cur[last] += ' ' + line.strip()
    return states


def parse_hist(text):
    """<<<<"inc">>, <<"value", 2>>>> -> [('inc',), ('value', 2)]"""
    items = re.findall(r'<<("[a-z0-9_]+"(?:, (?:\d+|"[a-z0-9_]+"))*)>>', text)
    out = []
    for it in items:
        parts = [p.strip() for p in it.split(',')]
        out.append(tuple(int(p) if p.isdigit() else p.strip('"') for p in parts))
    return out


def _replay_progress_node(case, acc, order):
    hist, announced = case['hist'], case['announced']
    w, ref = build_progress(hist[:-1])
    exp_ref, got = w.apply(tuple(hist[-1]), ref)
    w.close()
    acc.step(bool(announced), 'tla-node')
    if got != int(announced):
        sig = '%s/progress-tla/%s/%s' % (PROP, hist[-1][0], 'message-count' if isinstance(got, str) else (
                                         'missing-announcement' if got < announced else
                                         'extra-announcement'))
        acc.violation(sig, core.make_record(PROP, 'progress-tla', sig, case=case, trace=hist,
                                            expected={'model_announced': bool(announced)},
                                            observed={'complete_events': got}), len(hist))
    if exp_ref != int(announced):
        sig = '%s/progress-tla/model-vs-python-reference/disagree' % PROP
        acc.violation('HARNESS/' + sig, core.make_record(PROP, 'progress-tla', sig, case=case,
                                                         expected=announced, observed=exp_ref), 0)


def tla_progress(ctx):
    N, D = (3, 5) if ctx.thorough else (2, 4)
    cfg = ('CONSTANTS N = %d\n D = %d\nINIT Init\nNEXT Next\n'
           'INVARIANTS AnnounceOnlyAtMax ArmedBelowMax\n' % (N, D))
    wd = os.path.join(core.scratch_root(), 'tlc-progress')
    rc, out, dump = run_tlc('Progress', cfg, wd)
    m = re.search(r'(\d+) states generated, (\d+) distinct states found', out)
    if rc != 0 or not m or 'Error' in out and 'No error has been found' not in out:
        sig = 'HARNESS/tlc-progress'
        ctx.acc.violation(sig, core.make_record(PROP, 'progress-tla', sig, observed=out[-1500:]))
        return
    states = parse_dump(dump)
    cases = []
    for st in states:
        h = parse_hist(st['hist'])
        if not h:
            continue
        cases.append({'hist': [list(x) for x in h], 'announced': st['announced'].strip() == 'TRUE'})
    ctx.notes['tlc_progress'] = {'N': N, 'D': D, 'generated': int(m.group(1)),
                                 'distinct': int(m.group(2)), 'nodes_replayed': len(cases),
                                 'invariants': ['AnnounceOnlyAtMax', 'ArmedBelowMax']}
    ctx.run_cases(_replay_progress_node, cases, sweep='19b-tla-conformance')


# ---------------------------------------------------------------------------

def explore(ctx):
    _CFG['max_regs'] = 3
    _CFG['all_styles_upto'] = 3
    n, depth, fix = core.bfs(ctx, expand_bus, [((RefBus().key(), None), [])], sweep='19a-bus',
                             chunk=32)
    ctx.exhaustive = ctx.exhaustive and fix
    _PCFG['N'] = 6 if ctx.thorough else 4
    n2, d2, fix2 = core.bfs(ctx, expand_progress, [(((0, 0, True), None), [])], sweep='19b-progress',
                            chunk=8)
    ctx.exhaustive = ctx.exhaustive and fix2
    tla_progress(ctx)
    # the module-level route (one global emitter): every history of length <= 4 over a small alphabet
    L = 5 if ctx.thorough else 4
    cases = [{'hist': [list(e) for e in h]} for n_ in range(2, L + 1)
             for h in itertools.product(MODULE_ALPHABET, repeat=n_) if h[-1][0] == 'emit']
    ctx.run_cases(run_module_route, cases, chunk=64, sweep='19a-module-level-route')
    ctx.bounds = {'bus': {'events': EVENTS, 'senders': SENDERS, 'filters': FILTERS, 'callbacks': LABELS,
                          'styles': STYLES, 'max_registrations': 3, 'silent_depth': 2,
                          'all_styles_below_list_length': _CFG['all_styles_upto']},
                  'progress': {'N': _PCFG['N']}}
    ctx.rule = ('state = product of the real object state and the reference state (19a: registration '
                'list, silence depth and flag x the emitter\'s callbacks and is_silent; 19b: value, '
                'maximum, armed x value, maximum, _has_completed), explored breadth-first to a '
                'fixpoint; transition = one operation applied to a fresh object rebuilt by replaying '
                'the shortest history of the state, observation compared with the reference; '
                'non-trivial = emit with >= 2 registrations, any operation while silenced, unconnects; '
                'progress: an operation that announces or starts from a disarmed state')
    ctx.assumptions = ['set_silent is only called outside a silent() context',
                       'resets leaving a zero maximum are outside the alphabet (statement silent)',
                       'the value emit returns while silenced and single-emit with no match are not compared']


def replay(record):
    imports()
    acc = core.Acc()
    if record['subcheck'] == 'bus':
        hist = [tuple(e) for e in record['trace']]
        expand_one(hist, acc, build, 'bus')
    elif record['subcheck'] == 'progress':
        hist = [tuple(e) for e in record['trace']]
        expand_one(hist, acc, build_progress, 'progress')
    elif record['subcheck'] == 'bus-module':
        run_module_route(record['case'], acc, 0)
    else:
        _replay_progress_node(record['case'], acc, 0)
    return [dict(v['record'], signature=s) for s, v in acc.violations.items()]


def expand_one(hist, acc, builder, kind):
    """Replay a recorded trace: expand its parent state and keep what the last event shows."""
    parent = [list(e) for e in hist[:-1]]
    sub = core.Acc()
    if kind == 'bus':
        _CFG['all_styles_upto'] = 99
        expand_bus(None, parent, sub)
    else:
        _PCFG['N'] = max([_PCFG['N']] + [e[1] for e in hist if len(e) > 1 and isinstance(e[1], int)])
        expand_progress(None, parent, sub)
    for s, v in sub.violations.items():
        if [list(e) for e in v['record']['trace']][-1] == list(hist[-1]) or True:
            acc.violations[s] = v
