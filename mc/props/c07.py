# -*- coding: utf-8 -*-
"""C07 -- spike/cluster index utilities partition the spikes.

space mode: every cluster-assignment vector up to a length bound over a gapped id alphabet x
integer dtypes x optional spike-id vectors, each queried with every requested-cluster tuple and
every lookup permutation; plus an enumerated periodic long family (sort stability); plus the
TemplateModel query methods on generated datasets (when the dataset generator is available).
"""
import itertools

import numpy as np

from .. import core
from ..util import describe

PROP = 'C07'
ALPHA = [0, 2, 5]
REQ = [0, 2, 5, 7]         # 7 is never present
DTYPES = ['int32', 'int64', 'uint16', 'uint32']


def imports():
    core.import_phylib('phylib.io.array', 'phylib.io.model')


def ref_groups(v, ids):
    g = {}
    for i, c in enumerate(v):
        g.setdefault(int(c), []).append(int(ids[i]) if ids is not None else i)
    return g


def as_list(x):
    return [int(y) for y in np.asarray(x).tolist()]


def check_vector(v, dt, ids, acc, case, order, full):
    from phylib.io.array import (_spikes_per_cluster, _spikes_in_clusters, _unique, _index_of,
                                 _flatten_per_cluster, grouped_mean)
    n = len(v)
    arr = np.array(v, dtype=dt)
    ids_arr = None if ids is None else np.array(ids, dtype=np.int64)
    groups = ref_groups(v, ids)
    present = sorted(groups)
    gapped = len(present) >= 2
    tag = 'ids' if ids is not None else 'noids'

    def report(sub, kind, op, exp, got):
        sig = '%s/%s/%s/%s/%s' % (PROP, sub, 'unsigned' if dt.startswith('u') else 'signed',
                                  'long' if n > 20 else 'short', kind)
        acc.violation(sig, core.make_record(PROP, sub, sig, case=case, op=op, expected=exp,
                                            observed=describe(got) if isinstance(got, BaseException)
                                            else got), order * 1000 + n)

    # grouping
    try:
        spc = _spikes_per_cluster(arr, ids_arr)
        got = {int(k): as_list(val) for k, val in spc.items()}
        inc = all(isinstance(val, np.ndarray) for val in spc.values())
    except Exception as e:
        spc, got, inc = None, e, True
    acc.step(gapped, 'spc:' + tag)
    if isinstance(got, BaseException):
        report('spikes_per_cluster', type(got).__name__, {'ids': ids}, groups, got)
    elif got != groups:
        if set(got) != set(groups):
            kind = 'keys'
        elif all(sorted(got[k]) == groups[k] for k in groups):
            kind = 'order-within-group'
        else:
            kind = 'members'
        report('spikes_per_cluster', kind, {'ids': ids}, groups, got)
    elif not inc:
        report('spikes_per_cluster', 'not-arrays', {'ids': ids}, 'arrays', 'other')
    # flatten
    if spc is not None and n > 0:
        try:
            fl = as_list(_flatten_per_cluster(spc))
        except Exception as e:
            fl = e
        exp = sorted(int(x) for x in (ids if ids is not None else range(n)))
        acc.step(gapped, 'flatten')
        if fl != exp:
            report('flatten_per_cluster', type(fl).__name__ if isinstance(fl, BaseException)
                   else 'value', {'ids': ids}, exp, fl)
    if ids is not None:
        return
    # unique
    try:
        u = as_list(_unique(arr))
    except Exception as e:
        u = e
    acc.step(gapped, 'unique')
    if u != present:
        report('unique', type(u).__name__ if isinstance(u, BaseException) else 'value', {}, present, u)
    # the same vector as a plain sequence of its elements (NumPy scalars of the dtype) and as a tuple
    if n:
        for form, seq in (('list-of-scalars', list(arr)), ('tuple', tuple(arr.tolist()))):
            try:
                u = as_list(_unique(seq))
            except Exception as e:
                u = e
            acc.step(gapped, 'unique:' + form)
            if u != present:
                report('unique', (type(u).__name__ if isinstance(u, BaseException) else 'value') + ',' + form,
                       {'form': form}, present, u)
    # selection of clusters
    reqs = [()]
    maxreq = 3 if full else 2
    for k in range(1, maxreq + 1):
        reqs += list(itertools.product(REQ, repeat=k))
    # long request lists and ids far outside the range of the vector (other code paths of the
    # membership test)
    reqs += [(-1,), (0, -1), (-3, 5, -1),            # an unknown id may be negative
             (10 ** 6,), (0, 10 ** 6), (2, 10 ** 6, 0), tuple(range(30)), tuple(range(29, -1, -1)) + (10 ** 6,),
             (0, 10 ** 6) + tuple(range(40, 62)), (5, 2) + tuple(range(100, 125)) + (10 ** 6,),
             tuple(range(300, 330)) + (present[0],) if present else (7,)]
    for req in reqs:
        exp = sorted(i for c in set(req) for i in groups.get(c, []))
        for cont in ('list', 'array'):
            r = list(req) if cont == 'list' else np.array(req, dtype=np.int64)
            try:
                got = as_list(_spikes_in_clusters(arr, r))
            except Exception as e:
                got = e
            acc.step(gapped and (7 in req or list(req) != sorted(req)), 'in_clusters')
            if got != exp:
                report('spikes_in_clusters', type(got).__name__ if isinstance(got, BaseException)
                       else 'value', {'clusters': list(req), 'container': cont}, exp, got)
    # index in lookup: every permutation of the present ids (plus one absent id in the lookup)
    if n > 0:
        for perm in itertools.permutations(present + [7]):
            exp = [perm.index(c) for c in v]
            try:
                got = as_list(_index_of(arr, np.array(perm)))
            except Exception as e:
                got = e
            acc.step(list(perm) != sorted(perm), 'index_of')
            if got != exp:
                report('index_of', type(got).__name__ if isinstance(got, BaseException) else 'value',
                       {'lookup': list(perm)}, exp, got)
    # grouped mean, 1-D and 2-D values
    vals1 = np.array([(3 * i + 1) % 11 for i in range(n)], dtype=np.float64)
    vals2 = np.stack([vals1, vals1 * 2 - 1], axis=1) if n else np.zeros((0, 2))
    # ... and integer- / single-precision-valued quantities (counts, channel numbers): the mean of
    # integers is not an integer
    vals3 = vals1.astype(np.int32)
    vals4 = (vals2 * 0.5).astype(np.float32)
    for vals in (vals1, vals2, vals3, vals4):
        exp = [np.mean(vals[[i for i in range(n) if v[i] == c]].astype(np.float64), axis=0) for c in present]
        exp = np.array(exp) if present else np.zeros((0,) + vals.shape[1:])
        try:
            got = grouped_mean(vals, arr)
        except Exception as e:
            got = e
        acc.step(gapped, 'grouped_mean%dd' % vals.ndim)
        if not (isinstance(got, np.ndarray) and got.shape == exp.shape and np.allclose(got, exp)):
            report('grouped_mean', type(got).__name__ if isinstance(got, BaseException) else 'value',
                   {'ndim': vals.ndim}, describe(exp), describe(got))


def run_big_lookup(case, acc, order):
    """_index_of / grouped_mean / _spikes_per_cluster with many distinct ids (lookup positions and
    ids beyond 8- and 16-bit ranges), for an enumerated family of permutations."""
    from phylib.io.array import _index_of, _spikes_per_cluster, _unique
    m, mult, dt = case['m'], case['mult'], case['dtype']
    acc.state()
    lookup = (np.arange(m, dtype=np.int64) * mult + 7) % m      # a permutation of 0..m-1 (gcd=1)
    assert len(set(lookup.tolist())) == m
    arr = np.concatenate([np.arange(m)[::-1], np.arange(0, m, 3)]).astype(dt)
    pos = np.empty(m, dtype=np.int64)
    pos[lookup] = np.arange(m)
    exp = pos[arr.astype(np.int64)]
    try:
        got = _index_of(arr, lookup)
    except Exception as e:
        got = e
    acc.step(True, 'index_of:big')
    if not (isinstance(got, np.ndarray) and np.array_equal(got, exp)):
        sig = '%s/index_of/%s/many-ids/%s' % (PROP, 'unsigned' if dt.startswith('u') else 'signed',
                                              type(got).__name__ if isinstance(got, BaseException)
                                              else 'value')
        acc.violation(sig, core.make_record(PROP, 'index_of', sig, case=case,
                                            expected='position of every id in the lookup',
                                            observed=describe(got) if isinstance(got, BaseException)
                                            else 'first mismatch at %d' % int(np.argmax(got != exp))),
                      order)
    try:
        spc = _spikes_per_cluster(arr)
        ok = len(spc) == m and all(
            [int(x) for x in spc[c]] == sorted(i for i in (m - 1 - c, m + c // 3 if c % 3 == 0 else -1)
                                               if i >= 0) for c in range(0, m, max(1, m // 50)))
        u_ok = np.array_equal(_unique(arr), np.arange(m))
    except Exception as e:
        ok, u_ok = False, True
    acc.step(True, 'spc:big')
    if not (ok and u_ok):
        sig = '%s/spikes_per_cluster/%s/many-ids/value' % (PROP, 'unsigned' if dt.startswith('u')
                                                           else 'signed')
        acc.violation(sig, core.make_record(PROP, 'spikes_per_cluster', sig, case=case,
                                            expected='groups by id', observed='mismatch'), order)


def run_extreme(case, acc, order):
    """Short lookups / assignment vectors whose values sit at the top of their dtype's range, held
    in that dtype (every permutation of the lookup), and groups that overlap (flatten = sorted union)."""
    from phylib.io.array import _index_of, _unique, _spikes_per_cluster, _spikes_in_clusters, \
        _flatten_per_cluster
    dt = case['dtype']
    top = int(np.iinfo(dt).max) if dt != 'int64' else 2 ** 20
    top = min(top, 2 ** 20)                 # the lookup table has max+1 entries: keep it small
    vals = [top, 3, top - 1, 0]
    acc.state()

    def report(sub, kind, op, exp, got):
        sig = '%s/%s/%s/extreme-values/%s' % (PROP, sub, 'unsigned' if dt.startswith('u') else 'signed', kind)
        acc.violation(sig, core.make_record(PROP, sub, sig, case=case, op=op, expected=exp,
                                            observed=describe(got) if isinstance(got, BaseException)
                                            else got), order)
    for perm in itertools.permutations(vals):
        lookup = np.array(perm, dtype=dt)
        for arr_l in ([top], [0, top], [top - 1, top, top, 3], list(perm)[::-1]):
            for adt in (dt, 'int64'):
                arr = np.array(arr_l, dtype=adt)
                exp = [list(perm).index(x) for x in arr_l]
                try:
                    got = as_list(_index_of(arr, lookup))
                except Exception as e:
                    got = e
                acc.step(True, 'index_of:extreme')
                if got != exp:
                    report('index_of', type(got).__name__ if isinstance(got, BaseException) else 'value',
                           {'lookup': list(perm), 'arr': arr_l, 'arr_dtype': adt}, exp, got)
        v = np.array(list(perm) + [top], dtype=dt)
        try:
            u = as_list(_unique(v))
            spc = {int(k): as_list(x) for k, x in _spikes_per_cluster(v).items()}
            sel = as_list(_spikes_in_clusters(v, [top, 3]))
        except Exception as e:
            u = spc = sel = e
        acc.step(True, 'groups:extreme')
        exp_spc = {}
        for i, x in enumerate(v.tolist()):
            exp_spc.setdefault(int(x), []).append(i)
        exp_sel = sorted(exp_spc[top] + exp_spc[3])
        if u != sorted(set(vals)) or spc != exp_spc or sel != exp_sel:
            report('spikes_per_cluster', type(u).__name__ if isinstance(u, BaseException) else 'value',
                   {'vector': v.tolist()}, {'unique': sorted(set(vals)), 'groups': exp_spc},
                   u if isinstance(u, BaseException) else {'unique': u, 'groups': spc, 'selected': sel})
    # a negative id (the "unassigned" marker of some sorters) is an id like any other for grouping and
    # selection (the unique / grouped-mean helpers are documented for non-negative ids only)
    if not dt.startswith('u'):
        for vec in ([2, -1, 0, 2, -1, 5], [-1, -1], [0, -1], [5, 0, -1, 0], [-2, -1, 3, -2]):
            v = np.array(vec, dtype=dt)
            exp_spc = {}
            for i, x in enumerate(vec):
                exp_spc.setdefault(int(x), []).append(i)
            try:
                spc = {int(k): as_list(x) for k, x in _spikes_per_cluster(v).items()}
                sel = as_list(_spikes_in_clusters(v, [vec[0], -1]))
            except Exception as e:
                spc = sel = e
            acc.step(True, 'groups:negative-id')
            exp_sel = sorted(set(exp_spc.get(vec[0], []) + exp_spc.get(-1, [])))
            if spc != exp_spc or sel != exp_sel:
                report('spikes_per_cluster', type(spc).__name__ if isinstance(spc, BaseException)
                       else 'negative-id', {'vector': vec}, {'groups': exp_spc, 'selected': exp_sel},
                       spc if isinstance(spc, BaseException) else {'groups': spc, 'selected': sel})
    # groups that are not disjoint: the flattened result is the sorted union, every id once
    for groups in ({0: [0, 2, 5], 1: [2, 3]}, {4: [1, 1, 7], 2: [7, 9]}, {0: [3], 1: [3], 2: [3, 4]},
                   {5: [], 6: [2, 0]}):
        g = {k: np.array(x, dtype=np.int64) for k, x in groups.items()}
        exp = sorted(set(i for x in groups.values() for i in x))
        try:
            got = as_list(_flatten_per_cluster(g))
        except Exception as e:
            got = e
        acc.step(True, 'flatten:overlap')
        if got != exp:
            report('flatten_per_cluster', type(got).__name__ if isinstance(got, BaseException)
                   else 'overlapping-groups', {'groups': groups}, exp, got)


def run_long_narrow(case, acc, order):
    """Vectors with more entries than their (narrow) id dtype can count: spike indices are positions,
    never values of the id dtype."""
    from phylib.io.array import _spikes_per_cluster, _spikes_in_clusters
    dt, n = case['dtype'], case['n']
    acc.state()
    v = (np.arange(n) % 3 * 2).astype(dt)                   # ids 0, 2, 4
    bad = None
    try:
        spc = _spikes_per_cluster(v)
        for c in (0, 2, 4):
            exp = np.arange(c // 2, n, 3)
            got = np.asarray(spc[c])
            if got.shape != exp.shape or not np.array_equal(got.astype(np.int64), exp):
                k = int(np.argmax(got.astype(np.int64)[:len(exp)] != exp[:len(got)])) if len(got) else 0
                bad = ('value', 'group %d: entry %d is %s, expected %d' % (
                    c, k, got[k] if len(got) > k else None, exp[k]))
                break
        if bad is None:
            sel = np.asarray(_spikes_in_clusters(v, [4, 0]))
            exp = np.sort(np.concatenate([np.arange(0, n, 3), np.arange(2, n, 3)]))
            if sel.shape != exp.shape or not np.array_equal(sel.astype(np.int64), exp):
                bad = ('value', 'selection of clusters [4, 0] differs')
    except Exception as e:
        bad = (type(e).__name__, repr(e)[:200])
    acc.step(True, 'spc:long-narrow')
    if bad:
        sig = '%s/spikes_per_cluster/%s/more-spikes-than-the-id-dtype-counts/%s' % (
            PROP, 'unsigned' if dt.startswith('u') else 'signed', bad[0])
        acc.violation(sig, core.make_record(PROP, 'spikes_per_cluster', sig, case=case,
                                            expected='positions 0..n-1 grouped by id', observed=bad[1]), order)


def run_case(case, acc, order):
    if case.get('long_narrow'):
        return run_long_narrow(case, acc, order)
    if case.get('extreme'):
        return run_extreme(case, acc, order)
    if 'm' in case:
        return run_big_lookup(case, acc, order)
    v = case['v']
    n = len(v)
    full = case.get('full', True)
    for dt in case['dtypes']:
        acc.state()
        check_vector(v, dt, None, acc, dict(case, dtypes=[dt]), order, full)
        if n:
            ids = [10 + 3 * i + (i // 2) for i in range(n)]
            check_vector(v, dt, ids, acc, dict(case, dtypes=[dt]), order, full)
    if order % 137 == 0:
        acc.sample({'cluster_vector': v if n <= 12 else v[:12] + ['...(%d)' % n],
                    'dtypes': case['dtypes']})


def self_test():
    assert ref_groups([2, 0, 2], None) == {2: [0, 2], 0: [1]}
    assert ref_groups([2, 0, 2], [10, 13, 17]) == {2: [10, 17], 0: [13]}


def explore(ctx):
    self_test()
    L = 8 if ctx.thorough else 6
    ctx.bounds = {'max_len': L, 'alphabet': ALPHA, 'requested': REQ, 'dtypes': DTYPES,
                  'long_family': 'period <= 4 patterns repeated to 67 and 131 (and 523 thorough)'}
    ctx.rule = ('state = (cluster vector, dtype, optional spike-id vector); transition = one helper '
                'call compared with its set-theoretic definition; non-trivial = >= 2 distinct ids, an '
                'absent or unsorted requested id, an unsorted lookup')
    ctx.assumptions = ['ids are non-negative and below 2**15 (the helpers document non-negative ids)']
    cases = []
    for n in range(0, L + 1):
        for v in itertools.product(ALPHA, repeat=n):
            cases.append({'v': list(v), 'dtypes': DTYPES})
    ctx.run_cases(run_case, cases, sweep='short-vectors')
    cases = []
    lengths = (67, 131, 523) if ctx.thorough else (67, 131)
    for p in (1, 2, 3, 4):
        for pat in itertools.product(ALPHA, repeat=p):
            for n in lengths:
                cases.append({'v': [pat[i % p] for i in range(n)], 'dtypes': DTYPES, 'full': False})
    ctx.run_cases(run_case, cases, chunk=2, sweep='long-periodic')
    cases = [{'m': m, 'mult': mult, 'dtype': dt} for m in (200, 301, 40000)
             for mult in (1, 7, 11, 13) if np.gcd(mult, m) == 1
             for dt in (['int32', 'int64', 'uint32'] + (['uint16'] if m < 65536 else []))]
    ctx.run_cases(run_case, cases, chunk=1, sweep='many-ids')
    cases = [{'extreme': True, 'dtype': dt} for dt in ('uint8', 'uint16', 'int16', 'int32', 'uint32', 'int64')]
    ctx.run_cases(run_case, cases, chunk=1, sweep='extreme-values')
    cases = [{'long_narrow': True, 'dtype': dt, 'n': n}
             for dt, n in (('uint8', 1000), ('int16', 40000), ('uint16', 70000), ('int32', 70000))]
    ctx.run_cases(run_case, cases, chunk=1, sweep='long-narrow-dtype')
    try:
        from . import c07_model
    except ImportError:
        c07_model = None
    if c07_model is not None:
        c07_model.explore(ctx)


def replay(record):
    imports()
    if record.get('subcheck', '').startswith('model') or 'clusters' in (record.get('case') or {}):
        from . import c07_model
        return c07_model.replay(record)
    return core.replay_case(run_case, record)
