# -*- coding: utf-8 -*-
"""C08 -- curated clusters get the right template provenance and waveforms.

bfs mode over curation histories: from spike_clusters = spike_templates, events merge / split /
reassign produce new cluster vectors; after every event the vector is saved into a freshly
generated dataset and the model is loaded (the code recomputes everything at load). Canonical
state = the spike_clusters vector (the loaded model is a function of the directory, and only
this file changes).
"""
import itertools

import numpy as np

from .. import core
from ..gen import dsgen
from ..util import describe

PROP = 'C08'


def imports():
    core.import_phylib('phylib.io.model')


def events(sc):
    ids = sorted(set(sc))
    mx = max(sc)
    out = []
    for a, b in itertools.combinations(ids, 2):
        out.append(('merge', a, b))
    for c in ids:
        n = sum(1 for x in sc if x == c)
        for k in range(1, n):
            out.append(('split', c, k))
    for i in range(len(sc)):
        for c in ids:
            if c != sc[i]:
                out.append(('reassign', i, c))
    return out


def apply_event(sc, ev):
    sc = list(sc)
    mx = max(sc)
    if ev[0] == 'merge':
        return [mx + 1 if x in (ev[1], ev[2]) else x for x in sc]
    if ev[0] == 'split':
        c, k = ev[1], ev[2]
        seen = 0
        for i, x in enumerate(sc):
            if x == c:
                sc[i] = mx + 1 if seen < k else mx + 2
                seen += 1
        return sc
    if ev[0] == 'reassign':
        sc[ev[1]] = ev[2]
        return sc
    raise ValueError(ev)


def template_channels(T, pos, shanks, ncl):
    """Reference channel set of a (whitened, stored) template: nearest-ncl of its peak, same shank."""
    amp = T.max(axis=0) - T.min(axis=0)
    peak = int(np.argmax(amp))
    d = ((pos - pos[peak]) ** 2).sum(axis=1)
    near = np.argsort(d, kind='stable')[:ncl]
    return [int(c) for c in near if shanks[c] == shanks[peak]], peak


def reference_cluster_waveforms(T, st, sc, pos, shanks, ncl):
    """{cluster: (dominant channels D, expected waveform on D)} for clusters with >= 2 origin
    templates and a unique dominant template (spike-count-weighted mean of the channel-restricted
    origin templates)."""
    out = {}
    for c in sorted(set(int(x) for x in sc)):
        o = sorted(set(int(st[i]) for i in range(len(sc)) if sc[i] == c))
        if len(o) < 2:
            continue
        counts = {t: sum(1 for i in range(len(sc)) if sc[i] == c and st[i] == t) for t in o}
        top = max(counts.values())
        doms = [t for t in o if counts[t] == top]
        if len(doms) != 1:
            continue
        chans = {t: template_channels(T[t], pos, shanks, ncl)[0] for t in o}
        D = chans[doms[0]]
        exp = np.zeros((T.shape[1], len(D)))
        for t in o:
            for j, ch in enumerate(D):
                if ch in chans[t]:
                    exp[:, j] += counts[t] * T[t][:, ch]
        out[c] = (D, exp / float(sum(counts.values())))
    return out


def check_model(base, sc, acc, hist, order):
    """Generate the dataset with cluster vector sc, load it, compare with the definitions."""
    from phylib.io.model import load_model
    spec = dict(base['spec'])
    spec['spike_clusters'] = list(sc)
    bad = []
    with core.Scratch() as d:
        tr = dsgen.make_dataset(d / 'ds', spec)
        try:
            # the directory is opened twice: the second open reads what the first one cached on disk
            m = load_model(tr['params_path'])
            m.close()
            m = load_model(tr['params_path'])
        except Exception as e:
            import traceback
            bad.append(('load', type(e).__name__, 'a model', traceback.format_exc()[-500:]))
            m = None
        if m is not None:
            try:
                s = tr['spec']
                st = [int(x) for x in tr['spike_templates']]
                nt, nc = s['n_templates'], s['n_channels']
                T = tr['templates_dense'].astype(np.float64)
                pos = tr['channel_positions']
                shanks = tr['channel_shanks'] if tr['channel_shanks'] is not None else np.zeros(nc)
                coincide = list(sc) == st
                wmi = None
                if tr['wm'] is not None and np.all(np.isfinite(tr['wm'])):
                    wmi = tr['wmi_file'] if tr.get('wmi_file') is not None else np.linalg.inv(tr['wm'])
                elif tr['wm'] is None:
                    wmi = np.eye(nc)
                mx = max(sc)
                if coincide:
                    if dict(m.merge_map) != {}:
                        bad.append(('merge_map', 'not-empty-when-uncurated', {}, describe(dict(m.merge_map))))
                    if m.n_clusters != nt:
                        bad.append(('n_clusters', 'not-n_templates-when-uncurated', nt, int(m.n_clusters)))
                    if not np.array_equal(np.asarray(m.sparse_clusters.data),
                                          np.asarray(m.sparse_templates.data)):
                        bad.append(('sparse_clusters', 'not-templates-when-uncurated', 'templates', 'other'))
                else:
                    origins = {c: sorted(set(st[i] for i in range(len(sc)) if sc[i] == c))
                               for c in range(mx + 1)}
                    got_map = {int(k): sorted(int(x) for x in v) for k, v in dict(m.merge_map).items()}
                    if got_map != origins:
                        bad.append(('merge_map', 'value', origins, got_map))
                    empty = sorted(c for c in range(mx + 1) if not origins[c])
                    got_empty = sorted(int(x) for x in np.asarray(m.nan_idx).tolist())
                    if got_empty != empty:
                        bad.append(('nan_idx', 'value', empty, got_empty))
                    if int(m.n_clusters) != mx + 1:
                        bad.append(('n_clusters', 'value', mx + 1, int(m.n_clusters)))
                    data = np.asarray(m.sparse_clusters.data)
                    if data.shape[0] != mx + 1:
                        bad.append(('sparse_clusters', 'length', mx + 1, int(data.shape[0])))
                    else:
                        ncl = m.n_closest_channels
                        for c in range(mx + 1):
                            o = origins[c]
                            if len(o) == 1:
                                # "carries that template's waveform unchanged": exactly
                                if not np.array_equal(np.asarray(data[c], dtype=np.float64), T[o[0]]):
                                    bad.append(('sparse_clusters', 'single-origin-not-template',
                                                describe(T[o[0]]), describe(data[c])))
                            elif len(o) >= 2:
                                counts = {t: sum(1 for i in range(len(sc)) if sc[i] == c and st[i] == t)
                                          for t in o}
                                top = max(counts.values())
                                doms = [t for t in o if counts[t] == top]
                                chans = {t: template_channels(T[t], pos, shanks, ncl)[0] for t in o}
                                tot = float(sum(counts.values()))
                                ok_any = False
                                exp_first = None
                                for dom in doms:
                                    D = chans[dom]
                                    exp = np.zeros((T.shape[1], len(D)))
                                    for t in o:
                                        for j, ch in enumerate(D):
                                            if ch in chans[t]:
                                                exp[:, j] += counts[t] * T[t][:, ch]
                                    exp /= tot
                                    if exp_first is None:
                                        exp_first = (D, exp)
                                    if np.allclose(data[c][:, D], exp, rtol=1e-11, atol=1e-12):
                                        ok_any = True
                                        # the accessor gives the same mean (whitened variant)
                                        try:
                                            mw = m.get_cluster_mean_waveforms(c, unwhiten=False)
                                            okm = sorted(int(x) for x in mw.channel_ids) == sorted(D)
                                            if okm:
                                                idx = [D.index(int(x)) for x in mw.channel_ids]
                                                okm = np.allclose(mw.mean_waveforms, exp[:, idx],
                                                                  rtol=1e-11, atol=1e-12)
                                        except Exception as e:
                                            okm = False
                                        if not okm:
                                            bad.append(('get_cluster_mean_waveforms', 'value',
                                                        'weighted mean on the dominant channels', 'differs'))
                                        break
                                if ok_any and len(doms) == 1 and wmi is not None:
                                    # the accessor in physical units: the same definition on the
                                    # unwhitened templates (whose largest channel may be another one)
                                    U = {t: T[t] @ wmi for t in o}
                                    uch = {t: template_channels(U[t], pos, shanks, ncl)[0] for t in o}
                                    Du = uch[doms[0]]
                                    expu = np.zeros((T.shape[1], len(Du)))
                                    for t in o:
                                        for j, ch in enumerate(Du):
                                            if ch in uch[t]:
                                                expu[:, j] += counts[t] * U[t][:, ch]
                                    expu /= tot
                                    try:
                                        mw = m.get_cluster_mean_waveforms(c, unwhiten=True)
                                        got_ch = [int(x) for x in mw.channel_ids]
                                        oku = sorted(got_ch) == sorted(Du)
                                        if oku:
                                            idx = [Du.index(x) for x in got_ch]
                                            oku = np.allclose(mw.mean_waveforms, expu[:, idx],
                                                              rtol=1e-5, atol=1e-6)
                                        seen = {'channels': got_ch}
                                    except Exception as e:
                                        oku, seen = False, repr(e)
                                    if not oku:
                                        bad.append(('get_cluster_mean_waveforms', 'unwhitened',
                                                    {'channels': Du, 'mean': describe(expu)}, seen))
                                if not ok_any:
                                    bad.append(('sparse_clusters', 'weighted-mean%s' % (
                                        ',tie' if len(doms) > 1 else ''),
                                        {'channels': exp_first[0], 'mean': describe(exp_first[1])},
                                        describe(data[c][:, exp_first[0]])))
            except Exception as e:
                import traceback
                bad.append(('oracle', 'HARNESS-' + type(e).__name__, '', traceback.format_exc()[-600:]))
            finally:
                m.close()
    return bad


def expand(key, hist, acc):
    base = _BASES[key[0]]
    sc = list(key[1])
    succ = []
    for ev in events(sc):
        sc2 = apply_event(sc, ev)
        st = base['st']
        multi = any(len(set(st[i] for i in range(len(sc2)) if sc2[i] == c)) >= 2 for c in set(sc2))
        empty = len(set(sc2)) < max(sc2) + 1
        bad = check_model(base, sc2, acc, hist, 0)
        acc.step(multi or empty, ev[0])
        h2 = list(hist) + [list(ev)]
        if bad:
            for attr, kind, exp, got in bad:
                if kind.startswith('HARNESS'):
                    sig = 'HARNESS/%s' % kind
                else:
                    sig = '%s/curation/%s/%s' % (PROP, attr, kind)
                acc.violation(sig, core.make_record(
                    PROP, 'curation', sig, case={'base': base['name'], 'spec': base['spec']},
                    trace=h2, op={'spike_templates': st, 'spike_clusters': sc2},
                    expected=exp, observed=got), len(h2))
            continue
        succ.append(((key[0], tuple(sc2)), h2))
    if len(hist) == 1 and hash(key) % 20 == 0:
        acc.sample({'base': base['name'], 'history': hist, 'spike_clusters': sc})
    return succ


_BASES = []


def make_bases(ctx):
    del _BASES[:]
    ns, nt = 6, 3
    assigns = [a for a in itertools.product(range(nt), repeat=ns) if len(set(a)) == nt]
    if not ctx.thorough:
        k = 12
        assigns = assigns[ctx.seed % 7::max(1, len(assigns) // k)][:k]
    else:
        assigns = assigns[ctx.seed % 5::max(1, len(assigns) // 40)][:40]
    # the family whose highest template has no spikes
    unused_top = [a for a in itertools.product(range(nt - 1), repeat=ns) if len(set(a)) == nt - 1]
    unused_top = unused_top[ctx.seed % 3::max(1, len(unused_top) // 3)][:3]
    geos = [('line', 4), ('col14', 14), ('twoshank_close', 14), ('line14_eps', 14)]
    for a in list(assigns) + list(unused_top):
        for gi, (geo, nc) in enumerate(geos):
            for wh in ('identity', 'mixing', 'gains'):
                if not ctx.thorough and (gi + (wh != 'identity')) % 2 != (sum(a) % 2):
                    continue   # quick: geometry and whitening alternate over the bases
                if geo == 'twoshank_close' and (wh == 'gains' or (not ctx.thorough and sum(a) % 3)):
                    continue   # two interleaved shanks: a third of the bases in the quick tier
                if geo == 'line14_eps' and (wh != 'mixing' or (not ctx.thorough and sum(a) % 3 != 1)):
                    continue   # near-ties at the 12-channel cut-off: a third of the bases in the quick tier
                if wh == 'gains' and geo != 'col14':
                    continue   # gains matter where the channel set can change (> 12 channels)
                spec = {'n_spikes': ns, 'n_templates': nt, 'n_channels': nc, 'geometry': geo,
                        'spike_templates': list(a), 'whitening': wh, 'features': 'absent',
                        'tfeatures': 'absent', 'raw': False, 'fill': ctx.seed, 'nsw': 4,
                        'template_dtype': 'float64' if sum(a) % 3 == 0 else 'float32'}
                var = ''
                if geo == 'twoshank_close':
                    spec['shanks'] = 'two'         # the shank file is there: channels of the other shank
                    # are close by, but not part of a template's channels
                if geo == 'line' and sum(a) % 2 == 1:
                    # templates that are exactly flat on some channels (a flat channel is still one of
                    # the template's channels: the threshold is "reaches", and 0 reaches 0)
                    spec['profile'] = [[3, 2, 0, 0], [0, 0, 2, 3], [1, 0, 3, 4]]
                    var = '/flat-channels'
                if geo == 'line14_eps':
                    # peaks on channels 6, 7 and 0: the channel sets of the first two end with a near-tie
                    spec['profile'] = [[float(20 - abs(c - pk)) for c in range(14)] for pk in (6, 7, 0)]
                if geo == 'col14' and sum(a) % 2 == 0:
                    spec['geometry'] = 'col14p_mm'     # coordinates in mm (sites less than one unit
                    # apart), numbered in a scattered order (neighbours are not adjacent indices)
                    var = '/mm'
                _BASES.append({'name': '%s/%s/%s%s' % (''.join(map(str, a)), geo, wh, var), 'spec': spec,
                               'st': list(a)})


def prepare(tier, seed):
    class _C(object):
        pass
    c = _C()
    c.thorough, c.seed, c.tier = tier == 'thorough', seed, tier
    make_bases(c)


def explore(ctx):
    make_bases(ctx)
    depth = 3 if ctx.thorough else 2
    roots = []
    root_acc = core.Acc()
    for bi, base in enumerate(_BASES):
        st = base['st']
        bad = check_model(base, st, root_acc, [], 0)
        root_acc.step(max(st) + 1 < 3, 'root')
        for attr, kind, exp, got in bad:
            sig = '%s/curation/%s/%s' % (PROP, attr, kind)
            root_acc.violation(sig, core.make_record(
                PROP, 'curation', sig, case={'base': base['name'], 'spec': base['spec']}, trace=[],
                op={'spike_templates': st, 'spike_clusters': st}, expected=exp, observed=got), 0)
        roots.append(((bi, tuple(st)), []))
    ctx.acc.merge(root_acc)
    n, d, fix = core.bfs(ctx, expand, roots, max_depth=depth, sweep='curation-histories', chunk=2)
    ctx.bounds = {'bases': len(_BASES), 'depth': depth, 'spikes': 6, 'templates': 3,
                  'events': 'merge(c1,c2), split(c,k), reassign(spike,c)'}
    ctx.rule = ('state = (base dataset, spike_clusters vector) reached by a curation history, '
                'canonicalised by the vector; transition = one merge / split / reassign event followed '
                'by saving the vector into a freshly generated dataset and loading it, the loaded '
                'model compared with the provenance and weighted-mean definitions; non-trivial = some '
                'cluster has >= 2 origin templates or some id is empty')
    ctx.assumptions = ['when spike counts tie, either tied template may be the dominant one',
                       'values of a multi-origin cluster outside the dominant template\'s channels are '
                       'not compared', 'dense templates only']
    ctx.exhaustive = True
    ctx.notes['depth_completed'] = d


def replay(record):
    imports()
    acc = core.Acc()
    base = {'name': record['case']['base'], 'spec': record['case']['spec'],
            'st': record['op']['spike_templates']}
    bad = check_model(base, record['op']['spike_clusters'], acc, record.get('trace') or [], 0)
    out = []
    for attr, kind, exp, got in bad:
        sig = '%s/curation/%s/%s' % (PROP, attr, kind)
        out.append(core.make_record(PROP, 'curation', sig, case=record['case'], trace=record.get('trace'),
                                    op=record['op'], expected=exp, observed=got))
    return out
