# -*- coding: utf-8 -*-
"""C12 -- merged channel and template arrays are block-structured by probe.

space mode: every k-tuple (k = 1..3, 4 thorough) over a family of probes with different
channel counts, template counts, channel maps, geometries, index-table dtypes and optional
matrices; the output files are read back with np.load and compared block by block with the
generator's arrays.
"""
import itertools

import numpy as np

from .. import core
from ..util import describe
from . import merge_common as mc_

PROP = 'C12'
imports = mc_.imports

FAMILY = [
    {'n_channels': 3, 'n_templates': 2, 'channel_map': 'identity', 'geometry': 'grid',
     'ind_dtype': 'uint32'},
    {'n_channels': 2, 'n_templates': 3, 'channel_map': 'perm', 'geometry': 'linex10',
     'ind_dtype': 'int32'},
    {'n_channels': 4, 'n_templates': 2, 'channel_map': 'sub', 'geometry': 'grid',
     'ind_dtype': 'uint32', 'whitening': 'absent'},
    {'n_channels': 3, 'n_templates': 3, 'channel_map': 'identity', 'geometry': 'linex0',
     'ind_dtype': 'uint32'},
    {'n_channels': 4, 'n_templates': 3, 'channel_map': 'perm', 'geometry': 'grid',
     'ind_dtype': 'int32', 'similar': False},
    {'n_channels': 2, 'n_templates': 2, 'channel_map': 'identity', 'geometry': 'grid',
     'ind_dtype': 'uint32', 'whitening_inv': False},
    # the highest template of this probe has no spikes
    {'n_channels': 3, 'n_templates': 3, 'channel_map': 'identity', 'geometry': 'grid',
     'ind_dtype': 'uint32', 'unused_top': True},
    # probe geometry in millimetres (sites less than one unit apart)
    {'n_channels': 4, 'n_templates': 2, 'channel_map': 'identity', 'geometry': 'grid_mm',
     'ind_dtype': 'uint32'},
    # templates stored in double precision (the other probes store float32)
    {'n_channels': 3, 'n_templates': 2, 'channel_map': 'perm', 'geometry': 'grid',
     'ind_dtype': 'uint32', 'template_dtype': 'float64'},
]


def build_probes(case):
    probes = []
    for k, idx in enumerate(case['tuple']):
        q = dict(idx) if isinstance(idx, dict) else dict(FAMILY[idx])
        nt = q['n_templates']
        if q.pop('unused_top', False):
            tpl = [i % (nt - 1) for i in range(nt + 1)]
        else:
            tpl = [i % nt for i in range(nt + 1)]
        # every probe of a merge has the same rate: a round one, or a calibrated one with many decimals
        q['sample_rate'] = 100.0 if len(case['tuple']) % 2 else 29999.954846
        q.update(n_spikes=nt + 1, templates=tpl, times=[3 * i + k for i in range(nt + 1)],
                 amp_base=1.0 + q.pop('amp_step', 16) * k, fill=k)    # amplitudes identify spikes
        probes.append(q)
    return probes


def block_diag(mats):
    n = sum(m.shape[0] for m in mats)
    out = np.zeros((n, n))
    i = 0
    for m in mats:
        out[i:i + m.shape[0], i:i + m.shape[0]] = m
        i += m.shape[0]
    return out


def check(res):
    bad = []
    if res['exception'] is not None:
        bad.append(('merge', type(res['exception']).__name__, 'a merged dataset', res['traceback']))
        return bad
    truths, out = res['truths'], res['out']
    K = len(truths)
    cs = [tr['spec']['n_channels'] for tr in truths]
    nts = [tr['spec']['n_templates'] for tr in truths]
    C = [int(sum(cs[:k])) for k in range(K)]
    # template offsets: whatever offset the merged spike template ids of each probe carry (C11
    # checks that it is constant per probe); spikes are identified by their (distinct) amplitude
    T = []
    m_amp, m_st = out.get('amplitudes.npy'), out.get('spike_templates.npy')
    for k, tr in enumerate(truths):
        off = None
        if isinstance(m_amp, np.ndarray) and isinstance(m_st, np.ndarray):
            pos = np.nonzero(m_amp == tr['amplitudes'][0])[0]
            if len(pos) == 1:
                off = int(m_st[pos[0]]) - int(tr['spike_templates'][0])
        if off is None:
            bad.append(('spike_templates.npy', 'cannot-identify-template-offset', 'see C11', None))
            return bad
        T.append(off)
    nC = sum(cs)

    def arr(name, shape=None):
        a = out.get(name)
        if not isinstance(a, np.ndarray):
            bad.append((name, 'missing', 'present', describe(a) if a is not None else None))
            return None
        return a

    cp = arr('channel_probe.npy')
    if cp is not None:
        exp = np.concatenate([np.full(c, k) for k, c in enumerate(cs)])
        if cp.shape != exp.shape or not np.array_equal(cp, exp):
            bad.append(('channel_probe.npy', 'value', describe(exp), describe(cp)))
    pos = arr('channel_positions.npy')
    if pos is not None:
        if pos.shape != (nC, 2):
            bad.append(('channel_positions.npy', 'shape', [nC, 2], list(pos.shape)))
        else:
            ranges = []
            for k, tr in enumerate(truths):
                blk = pos[C[k]:C[k] + cs[k]]
                inp = tr['channel_positions']
                dx = blk[:, 0] - inp[:, 0]
                if not np.allclose(blk[:, 1], inp[:, 1]) or not np.allclose(dx, dx[0]):
                    bad.append(('channel_positions.npy', 'not-a-translation-along-x',
                                describe(inp), describe(blk)))
                    break
                ranges.append((blk[:, 0].min(), blk[:, 0].max()))
            else:
                for i in range(K):
                    for j in range(i + 1, K):
                        if not (ranges[i][1] < ranges[j][0] or ranges[j][1] < ranges[i][0]):
                            xi = truths[i]['channel_positions'][:, 0]
                            zero_w = xi.max() == xi.min()
                            bad.append(('channel_positions.npy', 'probes-not-apart/%s' % (
                                'earlier-probe-is-a-single-column' if zero_w else 'other'),
                                'disjoint x-ranges', [list(map(float, r)) for r in ranges]))
                            break
                    else:
                        continue
                    break
    tp = arr('templates.npy')
    if tp is not None:
        ok_shape = tp.ndim == 3 and tp.shape[2] == nC
        if not ok_shape:
            bad.append(('templates.npy', 'shape', ['*', '*', nC], list(tp.shape)))
        else:
            for k, tr in enumerate(truths):
                Tk = tr['templates_dense']
                for t in range(nts[k]):
                    row = T[k] + t
                    if row >= tp.shape[0]:
                        bad.append(('templates.npy', 'template-row-missing',
                                    {'probe': k, 'template': t, 'row': row}, list(tp.shape)))
                        break
                    blk = tp[row][:, C[k]:C[k] + cs[k]]
                    rest = np.delete(tp[row], np.arange(C[k], C[k] + cs[k]), axis=1)
                    if not np.array_equal(blk, Tk[t].astype(tp.dtype)):
                        what = 'wrong-block' if K <= 2 or k < 2 else 'wrong-block,probe>=2'
                        if T[k] != sum(nts[:k]):
                            what = 'row-offset-differs-from-id-offset'
                        bad.append(('templates.npy', what, describe(Tk[t]), describe(tp[row])))
                        break
                    if rest.size and np.any(rest != 0):
                        bad.append(('templates.npy', 'nonzero-outside-block', 'zeros', describe(tp[row])))
                        break
                else:
                    continue
                break
    for fn, key, offs in (('pc_feature_ind.npy', 'pc_feature_ind', C),
                          ('template_feature_ind.npy', 'template_feature_ind', T)):
        a = arr(fn)
        if a is not None:
            exp = np.concatenate([tr[key].astype(np.int64) + offs[k] for k, tr in enumerate(truths)])
            if a.shape != exp.shape or not np.array_equal(a.astype(np.int64), exp):
                bad.append((fn, 'value', describe(exp), describe(a)))
    for fn, key in (('whitening_mat.npy', 'wm'), ('whitening_mat_inv.npy', 'wmi_file'),
                    ('similar_templates.npy', 'similar_templates')):
        mats = [tr[key] for tr in truths]
        if key == 'wmi_file' and any(m is None for m in mats) and all(tr['wm'] is not None for tr in truths):
            # a probe without an inverse file: whatever inverse block the merged file carries for it is the
            # inverse of that probe's matrix
            a = arr(fn)
            if a is not None:
                exp = block_diag([m if m is not None else np.linalg.inv(tr['wm'])
                                  for m, tr in zip(mats, truths)])
                if a.shape != exp.shape or not np.allclose(a, exp, rtol=1e-9, atol=1e-12):
                    bad.append((fn, 'not-block-diagonal,probe-without-inverse-file', describe(exp), describe(a)))
        if all(m is not None for m in mats):
            a = arr(fn)
            if a is not None:
                exp = block_diag(mats)
                if a.shape != exp.shape or not np.allclose(a, exp, rtol=0, atol=0):
                    bad.append((fn, 'not-block-diagonal', describe(exp), describe(a)))
    prm = out.get('params.py') or {}
    exp_dat = sum(tr['n_channels_dat'] for tr in truths)
    sr_exp = truths[0]['spec']['sample_rate']
    if prm.get('n_channels_dat') != exp_dat or prm.get('sample_rate') != sr_exp:
        bad.append(('params.py', 'value', {'n_channels_dat': exp_dat, 'sample_rate': sr_exp},
                    {k: prm.get(k) for k in ('n_channels_dat', 'sample_rate', 'error')}))
    if res.get('loads') is not True:
        bad.append(('merged-directory', 'does-not-load', 'load_model succeeds', res.get('loads')))
    if res.get('second_merge_differs'):
        bad.append(('second-merge', 'output-differs-from-first-merge', 'the same files',
                    res['second_merge_differs']))
    # the model returned by merge() shows what the merged files hold
    mod = res.get('model') or {}
    if 'error' not in mod:
        for key, fn in (('channel_positions', 'channel_positions.npy'),
                        ('similar_templates', 'similar_templates.npy')):
            a, b = out.get(fn), mod.get(key)
            if key == 'channel_positions' and isinstance(a, np.ndarray) and \
                    len(set(map(tuple, a.tolist()))) < len(a):
                continue      # coinciding sites (the known single-column finding): the loader's documented
                # fallback replaces them by a linear layout
            if isinstance(a, np.ndarray) and b is not None and (
                    np.asarray(b).shape != a.shape or not np.array_equal(np.asarray(b, dtype=np.float64),
                                                                        a.astype(np.float64))):
                bad.append(('model.' + key, 'differs-from-merged-file', describe(a), describe(np.asarray(b))))
    return bad


def run_case(case, acc, order):
    probes = build_probes(case)
    res = mc_.run_merge(probes, case.get('fill', 0))
    acc.state()
    cs = [p['n_channels'] for p in probes]
    acc.step(len(probes) >= 3 or len(set(cs)) > 1 or len(set(p['n_templates'] for p in probes)) > 1,
             'merge:k=%d' % len(probes))
    for attr, kind, exp, got in check(res):
        sig = '%s/merge/%s/%s/%s' % (PROP, attr, kind, 'k>=3' if len(probes) >= 3 else 'k<=2')
        acc.violation(sig, core.make_record(PROP, 'merge', sig, case=case, expected=exp, observed=got),
                      len(probes) * 10 ** 6 + order)
    if order % 37 == 0:
        acc.sample({'probes': [(i if isinstance(i, dict) else FAMILY[i]) for i in case['tuple']]})


def explore(ctx):
    K = 5 if ctx.thorough else 4
    cases = []
    fam = list(range(len(FAMILY)))
    for k in range(1, K + 1):
        pool = fam if k <= 3 else (fam[:5] if k == 4 else fam[:3])
        for tup in itertools.product(pool, repeat=k):
            cases.append({'tuple': list(tup), 'fill': ctx.seed})
    ctx.run_cases(run_case, cases, sweep='probe-tuples')
    # wide probes: merged channel indices exceed the range of narrow unsigned index tables
    cases = []
    for widths in ([120, 90, 70], [200, 100], [130, 130]):
        for idt in ('uint8', 'uint16', 'int32'):
            cases.append({'tuple': [{'n_channels': w, 'n_templates': 2 + (j % 2), 'channel_map': 'identity',
                                     'geometry': 'grid', 'ind_dtype': idt, 'ind_high': True}
                                    for j, w in enumerate(widths)],
                          'fill': ctx.seed})
    ctx.run_cases(run_case, cases, chunk=1, sweep='wide-probes')
    # probes with several hundred templates (more than fit in one 8-bit id / one write batch)
    cases = []
    for counts in ([300, 2], [2, 300, 3], [257, 256, 2]):
        cases.append({'tuple': [{'n_channels': 3, 'n_templates': n, 'channel_map': 'identity',
                                 'geometry': 'grid', 'ind_dtype': 'int32', 'amp_step': 1000}
                                for n in counts],
                      'fill': ctx.seed})
    ctx.run_cases(run_case, cases, chunk=1, sweep='many-templates')
    ctx.bounds = {'family': FAMILY, 'k_max': K}
    ctx.rule = ('state = one tuple of generated probe directories; transition = Merger.merge() on '
                'them, every output array compared block by block with the inputs (channel blocks and '
                'probe labels, x-translation keeping probes apart, template blocks at the id offset, '
                'shifted index tables, block-diagonal matrices, parameters, loadability); non-trivial '
                '= k >= 3 or unequal channel / template counts')
    ctx.assumptions = ['>= 2 templates and channels per probe (squeeze is degenerate below)',
                       'index tables have the same width in every probe (they are concatenated)',
                       'matrices are compared only when present in all probes']


def replay(record):
    imports()
    return core.replay_case(run_case, record)
