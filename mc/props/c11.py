# -*- coding: utf-8 -*-
"""C11 -- merging probes conserves every spike and renumbers ids disjointly.

space mode: every k-tuple (k = 1..3, 4 thorough) over a family of probe records (spike counts,
time vectors with ties inside and across probes, gapped template ids, curated clusters,
optional per-cluster TSVs) x id dtype; plus a long-tie family where an unstable sort shows.
"""
import itertools

import numpy as np

from .. import core
from ..util import describe
from . import merge_common as mc_

PROP = 'C11'
imports = mc_.imports

TSV_ALL = {
    'cluster_KSLabel.tsv': {'field': 'KSLabel', 'values': {0: 'good', 2: 'mua'}},
    'cluster_Amplitude.tsv': {'field': 'Amplitude', 'values': {0: 12.5, 2: 3.25}},
    'cluster_ContamPct.tsv': {'field': 'ContamPct', 'values': {0: 0.0, 2: 50.0}},   # 0.0 is a value
}

FAMILY = [
    {'n_spikes': 2, 'times': [0, 0], 'templates': [0, 2], 'tsv': TSV_ALL},
    {'n_spikes': 2, 'times': [0, 1], 'templates': [2, 0], 'clusters': [4, 0]},
    {'n_spikes': 3, 'times': [0, 1, 1], 'templates': [0, 2, 2],
     'tsv': {'cluster_KSLabel.tsv': TSV_ALL['cluster_KSLabel.tsv']}},
    {'n_spikes': 3, 'times': [1, 1, 2], 'templates': [2, 0, 2], 'clusters': [5, 0, 5],
     'tsv': {'cluster_Amplitude.tsv': {'field': 'Amplitude', 'values': {0: 0.123456789, 5: 2.5e-05}}}},
    {'n_spikes': 3, 'times': [0, 0, 0], 'templates': [0, 0, 2]},
    {'n_spikes': 2, 'times': [2, 2], 'templates': [0, 2], 'clusters': [0, 3]},
    {'n_spikes': 3, 'times': [0, 2, 2], 'templates': [2, 2, 0], 'tsv': TSV_ALL},
]


def check(case, res):
    bad = []
    if res['exception'] is not None:
        bad.append(('merge', type(res['exception']).__name__, 'a merged dataset', res['traceback']))
        return bad
    truths, out = res['truths'], res['out']
    order = mc_.reference_order(truths)
    n = len(order)
    exp_times = np.array([truths[k]['spike_samples'][i] for k, i in order])
    exp_amps = np.array([truths[k]['amplitudes'][i] for k, i in order])

    def arr(name):
        a = out.get(name)
        return a if isinstance(a, np.ndarray) else None

    t, a, sc, st = arr('spike_times.npy'), arr('amplitudes.npy'), arr('spike_clusters.npy'), \
        arr('spike_templates.npy')
    for name, x in (('spike_times.npy', t), ('amplitudes.npy', a), ('spike_clusters.npy', sc),
                    ('spike_templates.npy', st)):
        if x is None or x.shape != (n,):
            bad.append((name, 'missing-or-shape', [n], describe(x) if x is not None else None))
    if bad:
        return bad
    if np.any(np.diff(t.astype(np.int64)) < 0):
        bad.append(('spike_times.npy', 'not-sorted', 'non-decreasing', describe(t)))
    if not np.array_equal(t.astype(np.int64), exp_times.astype(np.int64)):
        bad.append(('spike_times.npy', 'value', describe(exp_times), describe(t)))
    # amplitudes identify spikes: conservation and order (within probe kept, ties by probe)
    if sorted(a.tolist()) != sorted(exp_amps.tolist()):
        bad.append(('amplitudes.npy', 'spikes-not-conserved', describe(np.sort(exp_amps)),
                    describe(np.sort(a))))
    elif not np.array_equal(a, exp_amps):
        bad.append(('amplitudes.npy', 'order-among-simultaneous-spikes', describe(exp_amps), describe(a)))
    else:
        # per-probe constant offsets, disjoint id ranges
        for name, got, key in (('spike_clusters.npy', sc, 'spike_clusters'),
                               ('spike_templates.npy', st, 'spike_templates')):
            offs = {}
            ok = True
            for pos, (k, i) in enumerate(order):
                o = int(got[pos]) - int(truths[k][key][i])
                if offs.setdefault(k, o) != o:
                    ok = False
            if not ok:
                bad.append((name, 'offset-not-constant-per-probe', 'orig + offset_k', describe(got)))
                continue
            ranges = []
            for k in offs:
                ids = set(int(x) + offs[k] for x in truths[k][key].tolist())
                ranges.append(ids)
            for i1 in range(len(ranges)):
                for i2 in range(i1 + 1, len(ranges)):
                    if ranges[i1] & ranges[i2]:
                        bad.append((name, 'ids-collide', 'disjoint id sets', sorted(ranges[i1] & ranges[i2])))
            if name == 'spike_clusters.npy':
                res['_cluster_offsets'] = offs
    offs = res.get('_cluster_offsets')
    if offs is not None and not bad:
        cp = arr('cluster_probes.npy')
        if cp is None:
            bad.append(('cluster_probes.npy', 'missing', 'present', None))
        else:
            for k in offs:
                for c in set(truths[k]['spike_clusters'].tolist()):
                    cc = int(c) + offs[k]
                    if cc >= len(cp) or int(cp[cc]) != k:
                        bad.append(('cluster_probes.npy', 'wrong-probe', {'cluster': cc, 'probe': k},
                                    describe(cp)))
                        break
        # renumbered per-cluster metadata
        for fn in ('cluster_KSLabel.tsv', 'cluster_Amplitude.tsv', 'cluster_ContamPct.tsv'):
            exp = {}
            field = None
            for k, tr in enumerate(truths):
                tsv = (tr['spec']['tsv'] or {}).get(fn)
                if tsv:
                    field = tsv['field']
                    for cid, v in tsv['values'].items():
                        exp[int(cid) + offs.get(k, 0)] = str(v)
            got = out.get(fn)
            if not exp:
                if got is not None and got[1]:
                    bad.append((fn, 'unexpected-file', None, got))
                continue
            if got is None:
                bad.append((fn, 'missing', exp, None))
            else:
                g = {cid: (str(float(v)) if _isnum(v) and _isnum(exp.get(cid, 'x')) else v)
                     for cid, v in got[1].items()}
                e = {cid: (str(float(v)) if _isnum(v) else v) for cid, v in exp.items()}
                if g != e or got[0][1] != field:
                    bad.append((fn, 'value', e, g))
    # the returned model shows the same arrays
    mod = res.get('model')
    if not bad:
        if not mod or 'error' in mod:
            bad.append(('model', 'not-returned', 'a TemplateModel', mod))
        else:
            for key, exp in (('spike_samples', t), ('amplitudes', a), ('spike_clusters', sc),
                             ('spike_templates', st)):
                if not np.array_equal(np.asarray(mod[key]).astype(np.float64), exp.astype(np.float64)):
                    bad.append(('model.' + key, 'differs-from-files', describe(exp), describe(mod[key])))
            # each spike keeps its time, in seconds too (the merged dataset runs at the probes' rate)
            sr = float(truths[0]['spec']['sample_rate'])
            if 'spike_times' in mod and not np.allclose(np.asarray(mod['spike_times'], dtype=np.float64),
                                                        t.astype(np.int64) / sr, rtol=1e-13, atol=0):
                bad.append(('model.spike_times', 'seconds-differ-from-samples-over-rate',
                            describe(t.astype(np.int64) / sr), describe(mod['spike_times'])))
    if res.get('second_merge_differs'):
        bad.append(('second-merge', 'output-differs-from-first-merge', 'the same files',
                    res['second_merge_differs']))
    if not res['inputs_unchanged'] or res['inputs_new_files']:
        bad.append(('inputs', 'modified', 'byte-identical, nothing added',
                    {'changed': res['inputs_changed_files'], 'new': res['inputs_new_files']}))
    return bad


def _isnum(v):
    try:
        float(v)
        return True
    except (TypeError, ValueError):
        return False


def build_probes(case):
    probes = []
    for k, idx in enumerate(case['tuple']):
        if isinstance(idx, dict):
            p = dict(idx)
        else:
            p = dict(FAMILY[idx])
        p['id_dtype'] = case['id_dtype']
        if case['id_dtype'].startswith('mixed'):
            # every probe stores its ids and times in another integer type (signed / unsigned)
            r = int(case['id_dtype'][5:] or 0)
            p['id_dtype'] = ['uint32', 'int32', 'int64'][(k + r) % 3]
            p['time_dtype'] = ['uint64', 'int64', 'int32', 'uint32'][(k + r) % 4]
        p['amp_base'] = 1.0 + 16.0 * k
        # every probe of a merge has the same rate: a round one, or a calibrated one with many decimals
        p['sample_rate'] = 100.0 if len(case['tuple']) % 2 == 0 else 30000.246875
        probes.append(p)
    return probes


def run_case(case, acc, order):
    probes = build_probes(case)
    res = mc_.run_merge(probes, case.get('fill', 0))
    acc.state()
    times = [t for p in probes for t in p['times']]
    cross_tie = len(probes) >= 2 and any(
        set(probes[i]['times']) & set(probes[j]['times'])
        for i in range(len(probes)) for j in range(i + 1, len(probes)))
    acc.step(cross_tie or len(probes) >= 3 or len(set(len(p['times']) for p in probes)) > 1,
             'merge:k=%d' % len(probes))
    for attr, kind, exp, got in check(case, res):
        sig = '%s/merge/%s/%s/%s' % (PROP, attr, kind, 'k>=3' if len(probes) >= 3 else 'k<=2')
        acc.violation(sig, core.make_record(PROP, 'merge', sig, case=case, expected=exp, observed=got),
                      len(probes) * 10 ** 6 + order)
    if order % 97 == 0:
        acc.sample({'probes': [{k: p[k] for k in ('times', 'templates') if k in p} for p in probes],
                    'id_dtype': case['id_dtype']})


def long_tie_probe(n, pattern, shift):
    times = sorted([(pattern[i % len(pattern)]) for i in range(n)])
    tpl = [[0, 2][(i + shift) % 2] for i in range(n)]
    return {'n_spikes': n, 'times': times, 'templates': tpl}


def explore(ctx):
    K = 5 if ctx.thorough else 4
    cases = []
    fam = list(range(len(FAMILY)))
    if not ctx.thorough:
        fam = fam[:6] if ctx.seed % 2 == 0 else fam[1:]
    i = 0
    for k in range(1, K + 1):
        pool = fam if k <= 3 else (fam[:4] if k == 4 else fam[:3])
        for tup in itertools.product(pool, repeat=k):
            dts = ['int32', 'uint32', 'int64']
            for dt in (dts if k <= 2 else [dts[i % 3]]):
                cases.append({'tuple': list(tup), 'id_dtype': dt, 'fill': ctx.seed})
            i += 1
    ctx.run_cases(run_case, cases, sweep='probe-tuples')
    cases = []
    for n in ((40, 57) if ctx.thorough else (40,)):
        for pa in ([0, 1, 2], [0, 0, 1], [1]):
            for pb in ([0, 1, 2], [1, 1, 2], [1]):
                cases.append({'tuple': [long_tie_probe(n, pa, 0), long_tie_probe(n, pb, 1)],
                              'id_dtype': 'int32', 'fill': ctx.seed})
    ctx.run_cases(run_case, cases, chunk=1, sweep='long-ties')
    cases = [{'tuple': list(tup), 'id_dtype': 'mixed%d' % r, 'fill': ctx.seed}
             for k in (2, 3) for tup in itertools.product(fam[:3], repeat=k) for r in range(4)]
    ctx.run_cases(run_case, cases, sweep='mixed-dtypes')
    # many probes: more than ten directories (names that sort differently as text and as numbers)
    cases = [{'tuple': [fam[(j + r) % len(fam)] for j in range(k)], 'id_dtype': dt, 'fill': ctx.seed}
             for k, r, dt in ((11, 0, 'int32'), (12, 2, 'uint32'))]
    ctx.run_cases(run_case, cases, chunk=1, sweep='many-probes')
    ctx.bounds = {'family': len(FAMILY), 'k_max': K, 'id_dtypes': ['int32', 'uint32', 'int64'],
                  'long_ties': '2 probes x 40 spikes on <= 3 distinct times'}
    ctx.rule = ('state = one tuple of generated probe directories; transition = Merger(...).merge() '
                'on them, the output files read back with np.load and compared with an independent '
                'stable merge (times, amplitudes as spike identity, per-probe constant id offsets, '
                'disjoint id ranges, cluster_probes, renumbered TSVs, returned model, input hashes); '
                'non-trivial = a time tie across probes, unequal spike counts, or k >= 3')
    ctx.assumptions = ['one id dtype per merge; complete KiloSort directories (Merger requires them)',
                       'amplitudes are distinct per spike and identify spikes']


def replay(record):
    imports()
    return core.replay_case(run_case, record)
