# -*- coding: utf-8 -*-
"""C07, model route: TemplateModel.get_cluster_spikes / get_template_spikes /
get_template_counts on generated datasets, for every cluster vector of a small scope."""
import itertools

import numpy as np

from .. import core
from ..gen import dsgen

PROP = 'C07'
STS = {'all-used': (3, [0, 1, 2, 0, 2]), 'middle-unused': (4, [0, 1, 3, 0, 3]),
       'top-unused': (4, [0, 1, 2, 0, 2])}


def run_case(case, acc, order):
    from phylib.io.model import load_model
    sc = case['clusters']
    idt = case['id_dtype']
    nt, ST = STS[case.get('templates', 'all-used')]
    spec = {'n_spikes': len(sc), 'n_templates': nt, 'n_channels': 3, 'spike_templates': ST[:len(sc)],
            'spike_clusters': list(sc), 'id_dtype': idt, 'raw': False, 'features': 'absent',
            'tfeatures': 'absent', 'fill': case.get('fill', 0)}
    if case.get('alf'):
        spec['naming'] = 'alf'      # spikes.templates / spikes.clusters: each vector from its own file
    if case.get('no_cluster_file'):
        # the dataset has no cluster file: the clusters start as (a copy of) the templates
        spec['spike_clusters'] = 'absent'
        sc = list(ST[:len(sc)])
    with core.Scratch() as d:
        tr = dsgen.make_dataset(d / 'ds', spec)
        m = load_model(tr['params_path'])
        try:
            acc.state()
            st = ST[:len(sc)]
            for c in (0, 2, 5, 7):
                exp = [i for i in range(len(sc)) if sc[i] == c]
                exp_counts = [sum(1 for i in exp if st[i] == t) for t in range(nt)]
                for name, e, call in (
                        ('get_cluster_spikes', exp, lambda: m.get_cluster_spikes(c)),
                        ('get_template_counts', exp_counts, lambda: m.get_template_counts(c))):
                    try:
                        got = [int(x) for x in np.asarray(call()).tolist()]
                    except Exception as ex:
                        got = repr(ex)
                    acc.step(len(set(sc)) >= 2 or c == 7, 'model:' + name)
                    if got != e:
                        sig = '%s/model/%s/%s' % (PROP, name, 'value' if isinstance(got, list) else 'exception')
                        acc.violation(sig, core.make_record(
                            PROP, 'model', sig, case=case, op={'cluster': c}, expected=e, observed=got),
                            order)
            for t in (0, 1, 2, 3, 4):
                exp = [i for i in range(len(sc)) if st[i] == t]
                try:
                    got = [int(x) for x in np.asarray(m.get_template_spikes(t)).tolist()]
                except Exception as ex:
                    got = repr(ex)
                acc.step(True, 'model:get_template_spikes')
                if got != exp:
                    sig = '%s/model/get_template_spikes/%s' % (PROP, 'value' if isinstance(got, list)
                                                               else 'exception')
                    acc.violation(sig, core.make_record(
                        PROP, 'model', sig, case=case, op={'template': t}, expected=exp, observed=got),
                        order)
            # the assignment array is documented as updatable in memory (manual clustering): after an
            # in-place merge of the two lowest ids into a new id the queries must follow the array
            ids = sorted(set(sc))
            if len(ids) >= 2:
                new = max(sc) + 1
                sc2 = [new if x in ids[:2] else x for x in sc]
                m.spike_clusters[:] = np.array(sc2, dtype=m.spike_clusters.dtype)
                for c in [new] + ids[:2]:
                    exp = [i for i in range(len(sc2)) if sc2[i] == c]
                    exp_counts = [sum(1 for i in exp if st[i] == t) for t in range(nt)]
                    for name, e, call in (
                            ('get_cluster_spikes', exp, lambda: m.get_cluster_spikes(c)),
                            ('get_template_counts', exp_counts, lambda: m.get_template_counts(c))):
                        try:
                            got = [int(x) for x in np.asarray(call()).tolist()]
                        except Exception as ex:
                            got = repr(ex)
                        acc.step(True, 'model:after-in-memory-merge')
                        if got != e:
                            sig = '%s/model/%s,after-in-memory-update/%s' % (
                                PROP, name, 'value' if isinstance(got, list) else 'exception')
                            acc.violation(sig, core.make_record(
                                PROP, 'model', sig, case=case, op={'cluster': c, 'spike_clusters': sc2},
                                expected=e, observed=got), order)
                # the template assignments are not touched by a change of the cluster assignments
                for t in range(nt):
                    exp = [i for i in range(len(sc)) if st[i] == t]
                    try:
                        got = [int(x) for x in np.asarray(m.get_template_spikes(t)).tolist()]
                    except Exception as ex:
                        got = repr(ex)
                    acc.step(True, 'model:template-spikes-after-in-memory-merge')
                    if got != exp:
                        sig = '%s/model/get_template_spikes,after-in-memory-update/%s' % (
                            PROP, 'value' if isinstance(got, list) else 'exception')
                        acc.violation(sig, core.make_record(
                            PROP, 'model', sig, case=case, op={'template': t, 'spike_clusters': sc2},
                            expected=exp, observed=got), order)
        finally:
            m.close()
    if order % 61 == 0:
        acc.sample({'model_route': {'spike_templates': ST[:len(sc)], 'n_templates': nt,
                                    'spike_clusters': sc}})


def explore(ctx):
    cases = []
    i = 0
    for n in (3, 4, 5):
        for sc in itertools.product((0, 2, 5), repeat=n):
            for tk in (['all-used', 'middle-unused', 'top-unused'] if n == 5 else
                       [['all-used', 'middle-unused', 'top-unused'][i % 3]]):
                if len(set(STS[tk][1][:n])) < 2:
                    continue
                cases.append({'clusters': list(sc), 'id_dtype': ['int32', 'uint32', 'int64'][i % 3],
                              'fill': ctx.seed, 'templates': tk, 'alf': i % 4 == 1})
            i += 1
    for n in (4, 5):
        for tk in ('all-used', 'middle-unused', 'top-unused'):
            for idt in ('int32', 'uint32', 'int64'):
                cases.append({'clusters': [0] * n, 'id_dtype': idt, 'fill': ctx.seed, 'templates': tk,
                              'no_cluster_file': True})
    ctx.run_cases(run_case, cases, sweep='model-queries')


def replay(record):
    acc = core.Acc()
    core.import_phylib('phylib.io.model')
    run_case(record['case'], acc, 0)
    return [dict(v['record'], signature=s) for s, v in acc.violations.items()]
