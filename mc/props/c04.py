# -*- coding: utf-8 -*-
"""C04 -- loading a dataset reproduces its files under every supported layout.

space mode, deviation-bounded: a default dataset (every optional file present in its most
common form) and every configuration within Hamming distance k of it over the option axes,
k iterated 0, 1, 2 (3 thorough); each is generated for real, loaded with load_model and
compared attribute by attribute with the generator's ground truth; the directory is hashed
before and after.
"""
import itertools
import os

import numpy as np

from .. import core
from ..gen import dsgen
from ..util import describe

PROP = 'C04'

AXES = [
    ('naming', ['ks', 'alf']),
    ('vec2d', [False, True]),
    ('spike_clusters', ['same', 'absent', 'curated']),
    ('amplitudes', [True, False]),
    ('whitening', ['mixing', 'identity', 'absent']),
    ('whitening_inv', [False, True]),
    ('shanks', ['absent', 'one', 'two']),
    ('probes', ['absent', 'zeros', 'two']),
    ('features', ['sparse', 'absent', 'sparse_rows', 'noind']),
    ('tfeatures', ['sparse', 'absent', 'sparse_rows', 'noind']),
    ('similar', [True, False]),
    ('raw', [True, False, 'missing']),   # missing: params.py names a raw file that is not there
    ('raw_dir', ['', 'rawdata']),        # the raw files in a sub-directory, named by a relative path
    ('raw_extra_channels', [0, 2]),
    ('raw_offset', [0, 7]),
    ('raw_files', [1, 2]),
    ('raw_format', ['dat', 'npy', 'cbin']),
    ('templates', ['dense', 'sparse']),
    ('template_dtype', ['float32', 'float64']),
    ('id_dtype', ['int32', 'uint32', 'int64', 'uint16']),
    ('time_dtype', ['uint64', 'int64']),
    ('alf_samples', [True, False]),
    ('alf_clock', ['rate', 'sync']),
    ('geometry', ['grid', 'rect', 'grid_mm']),      # rect: sites share x and y values (still distinct positions)
    ('attrs', ['none', '1d', '2d', 'wronglen', 'col', 'row']),
    ('content', ['finite', 'nan_amp', 'inf_wm', 'nan_similar', 'nan_template', 'nan_features',
                 'nan_template_channel']),
    ('monotone', [True, False, 'ties']),    # ties: equal times are not a decrease
    ('channel_map', ['identity', 'perm', 'sub', 'sub_high']),
    ('sample_rate', [100.0, 25000.0, 2500.5, 0.05]),   # 7 / 25000 * 25000 truncates to 6: rounding matters;
    # a rate need not be a whole number; at 0.05 Hz the recording is longer than one 600 s reader chunk
]
AXDICT = dict(AXES)


def imports():
    core.import_phylib('phylib.io.model')


def spec_of(dev, fill):
    spec = {name: vals[0] for name, vals in AXES}
    spec.update(dev)
    spec['fill'] = fill
    if spec['spike_clusters'] == 'curated':
        # merge templates 0 and 1 into a new id, move one spike of template 2 to another new id
        st = dsgen_default_templates(spec)
        mx = int(max(st))
        sc = [mx + 1 if t in (0, 1) else t for t in st]
        last = max(i for i, t in enumerate(st) if t == 2)
        if sum(1 for t in st if t == 2) >= 2:
            sc[last] = mx + 2
        spec['spike_clusters'] = sc
    return spec


def dsgen_default_templates(spec):
    s = dsgen.spec_with_defaults(spec)
    ns, nt, fill = s['n_spikes'], s['n_templates'], int(s['fill'])
    st = [(i * 2 + fill) % nt for i in range(ns)]
    st[:nt] = list(range(nt))
    return st


def deviations(k):
    """Every set of k deviating axes with every non-default value combination."""
    for axes in itertools.combinations(range(len(AXES)), k):
        alts = [AXES[i][1][1:] for i in axes]
        for combo in itertools.product(*alts):
            dev = {AXES[i][0]: v for i, v in zip(axes, combo)}
            if dev.get('content') == 'nan_template_channel' and dev.get('spike_clusters') == 'curated':
                # outside the domain: per-cluster waveforms cannot be built from a template that is
                # NaN on one whole channel (no largest channel exists); see DESIGN section 13
                continue
            yield dev


def z(a):
    """NaN / inf -> 0, as the statement says for fully loaded arrays."""
    a = np.array(a, dtype=np.float64, copy=True)
    a[~np.isfinite(a)] = 0
    return a


def same(got, exp, exact_dtype=None):
    try:
        g = np.asarray(got)
        e = np.asarray(exp)
        if g.shape != e.shape:
            return 'shape'
        if e.dtype.kind == 'f' or g.dtype.kind == 'f':
            if not np.allclose(g.astype(np.float64), e.astype(np.float64), rtol=0, atol=0,
                               equal_nan=True):
                return 'value'
        elif not np.array_equal(g, e):
            return 'value'
        if exact_dtype is not None and g.dtype != np.dtype(exact_dtype):
            return 'dtype'
    except Exception as ex:
        return type(ex).__name__
    return None


def load_and_check(spec):
    """Generate, load, compare. Returns (list of (attr, kind, expected, observed), info)."""
    from phylib.io.model import load_model
    bad = []
    with core.Scratch() as d:
        ds = d / 'ds'
        tr = dsgen.make_dataset(ds, spec)
        s = tr['spec']
        before = dsgen.sha1_dir(ds)
        m = None
        try:
            # the parameter file given as a string or as a Path
            import pathlib
            pp = tr['params_path'] if int(spec.get('fill', 0)) % 2 == 0 else pathlib.Path(tr['params_path'])
            m = load_model(pp)
            exc = None
        except Exception as e:
            exc = e
        if not s['monotone']:
            if not isinstance(exc, ValueError):
                bad.append(('non-monotonic-times', 'accepted' if exc is None else type(exc).__name__,
                            'ValueError', describe(exc) if exc else 'loaded'))
            if m is not None:
                m.close()
            after = dsgen.sha1_dir(ds)
            _dir_invariant(before, after, s, bad, loaded=False)
            return bad, {'exception': True}
        if exc is not None:
            import traceback
            tb = ''.join(traceback.format_exception(type(exc), exc, exc.__traceback__))[-600:]
            bad.append(('exception', type(exc).__name__, 'a loaded model', tb))
            return bad, {'exception': True}
        try:
            sr = float(s['sample_rate'])
            ns = s['n_spikes']
            alf = s['naming'] == 'alf'
            samples = tr['spike_samples']

            def chk(attr, got, exp, dtype=None):
                k = same(got, exp, dtype)
                if k:
                    bad.append((attr, k, describe(np.asarray(exp)), describe(np.asarray(got))
                                if not isinstance(got, BaseException) else describe(got)))

            if alf:
                chk('spike_times', m.spike_times, tr['spike_times_sec'])
                chk('spike_samples', m.spike_samples, samples.astype(np.int64))
            else:
                chk('spike_samples', m.spike_samples, samples, samples.dtype)
                chk('spike_times', m.spike_times, samples.astype(np.float64) / sr)
            chk('spike_templates', m.spike_templates, tr['spike_templates'], tr['spike_templates'].dtype)
            if s['spike_clusters'] == 'absent':
                chk('spike_clusters', m.spike_clusters, tr['spike_templates'].astype(np.int64))
            else:
                chk('spike_clusters', m.spike_clusters, tr['spike_clusters'].astype(np.int64))
            if tr['amplitudes'] is None:
                if m.amplitudes is not None:
                    bad.append(('amplitudes', 'not-None', None, describe(m.amplitudes)))
            else:
                chk('amplitudes', m.amplitudes, z(tr['amplitudes']))
            chk('channel_mapping', m.channel_mapping, tr['channel_map'])
            chk('channel_positions', m.channel_positions, tr['channel_positions'])
            nc = s['n_channels']
            chk('channel_shanks', m.channel_shanks,
                tr['channel_shanks'] if tr['channel_shanks'] is not None else np.zeros(nc))
            chk('channel_probes', m.channel_probes,
                tr['channel_probes'] if tr['channel_probes'] is not None else np.zeros(nc))
            # templates (memory-mapped: at NaN positions the stored value or 0 is accepted)
            data = np.asarray(m.sparse_templates.data)
            exp = tr['templates_data']
            if data.shape != exp.shape:
                bad.append(('templates', 'shape', list(exp.shape), list(data.shape)))
            else:
                nanpos = ~np.isfinite(exp)
                if not np.array_equal(data[~nanpos], exp[~nanpos]) or not np.all(
                        (data[nanpos] == 0) | ~np.isfinite(data[nanpos])):
                    bad.append(('templates', 'value', describe(exp), describe(data)))
            if tr['templates_cols'] is None:
                if m.sparse_templates.cols is not None:
                    bad.append(('templates.cols', 'not-None', None, describe(m.sparse_templates.cols)))
            else:
                chk('templates.cols', m.sparse_templates.cols, tr['templates_cols'])
            # whitening
            wm_exp = np.eye(nc) if tr['wm'] is None else z(tr['wm'])
            chk('wm', m.wm, wm_exp)
            if tr['wmi_file'] is not None:
                chk('wmi', m.wmi, tr['wmi_file'])
            else:
                try:
                    ok = np.allclose(np.asarray(m.wmi), np.linalg.inv(wm_exp), rtol=1e-9, atol=1e-12)
                except Exception:
                    ok = False
                if not ok:
                    bad.append(('wmi', 'value', 'inv(wm)', describe(np.asarray(m.wmi))))
            nt = s['n_templates']
            chk('similar_templates', m.similar_templates,
                z(tr['similar_templates']) if tr['similar_templates'] is not None
                else np.zeros((nt, nt)))
            # spike attributes: exactly the matching-length files
            got_attrs = {k: np.asarray(v) for k, v in dict(m.spike_attributes).items()}
            if set(got_attrs) != set(tr['spike_attributes']):
                bad.append(('spike_attributes', 'keys', sorted(tr['spike_attributes']),
                            sorted(got_attrs)))
            else:
                for k, v in tr['spike_attributes'].items():
                    chk('spike_attributes', got_attrs[k], v)
            # traces
            if tr['raw'] is None:
                if m.traces is not None:
                    bad.append(('traces', 'not-None', None, 'a reader'))
            else:
                try:
                    got = m.traces[:]
                except Exception as e:
                    got = e
                chk('traces', got, tr['raw'][:, tr['channel_map']], tr['raw'].dtype)
                # the same rows one by one (an integer index and a one-row slice are two routes to a row)
                if not isinstance(got, BaseException) and tr['raw'].shape[0] >= 2:
                    for i in (1, tr['raw'].shape[0] - 1):
                        try:
                            row = np.atleast_2d(np.asarray(m.traces[i]))
                        except Exception as e:
                            row = e
                        chk('traces', row, tr['raw'][[i]][:, tr['channel_map']], tr['raw'].dtype)
            # features (memory-mapped; exempt at NaN positions)
            if tr['pc_features'] is not None:
                f = np.asarray(m.sparse_features.data)
                e = tr['pc_features'].transpose(0, 2, 1)
                fin = np.isfinite(e)
                if f.shape != e.shape or not np.array_equal(f[fin], e[fin]):
                    bad.append(('features', 'value', describe(e), describe(f)))
            elif m.sparse_features is not None:
                bad.append(('features', 'not-None', None, 'present'))
        finally:
            m.close()
        after = dsgen.sha1_dir(ds)
        _dir_invariant(before, after, s, bad, loaded=True)
        # loading again (now that the derived files exist) must give the same clusters and the same
        # inverse whitening matrix
        if not bad and (s['spike_clusters'] == 'absent' or tr['wmi_file'] is None):
            m2 = load_model(tr['params_path'])
            try:
                if s['spike_clusters'] == 'absent':
                    k = same(m2.spike_clusters, tr['spike_templates'].astype(np.int64))
                    if k:
                        bad.append(('spike_clusters-after-reload', k, describe(tr['spike_templates']),
                                    describe(m2.spike_clusters)))
                if tr['wmi_file'] is None:
                    wm_exp2 = np.eye(s['n_channels']) if tr['wm'] is None else z(tr['wm'])
                    try:
                        ok = np.allclose(np.asarray(m2.wmi), np.linalg.inv(wm_exp2), rtol=1e-9, atol=1e-12)
                    except Exception:
                        ok = False
                    if not ok:
                        bad.append(('wmi-after-reload', 'value', 'inv(wm)', describe(np.asarray(m2.wmi))))
            finally:
                m2.close()
    return bad, {'exception': False}


def _dir_invariant(before, after, s, bad, loaded):
    changed = sorted(f for f in before if f in after and before[f] != after[f])
    removed = sorted(f for f in before if f not in after)
    new = sorted(f for f in after if f not in before)
    if changed:
        bad.append(('directory', 'file-modified:' + ','.join(changed), 'byte-identical', changed))
    if removed:
        bad.append(('directory', 'file-removed', 'all files kept', removed))
    allowed = set()
    if s['spike_clusters'] == 'absent':
        allowed.add('spike_clusters.npy')
    if not (s['whitening_inv'] and s['whitening'] != 'absent' and s['content'] != 'inf_wm'):
        allowed.add('whitening_mat_inv.npy')
    extra = [f for f in new if f not in allowed]
    if extra:
        bad.append(('directory', 'file-created', sorted(allowed), extra))


def dev_key(dev):
    return '+'.join('%s=%s' % (k, dev[k]) for k in sorted(dev)) or 'default'


def run_case(case, acc, order):
    dev = case['dev']
    sizes = case.get('sizes') or {}
    spec = dict(spec_of(dev, case['fill']), **sizes)
    bad, info = load_and_check(spec)
    acc.state()
    nontrivial = len(dev) >= 1
    acc.step(nontrivial, 'load:%d-deviations' % len(dev))
    if order % 173 == 0:
        acc.sample({'deviations_from_default': dev})
    for attr, kind, exp, got in bad:
        culprit = dev
        if len(dev) >= 2:
            # attribute the failure to the smallest sub-configuration that shows it
            for k in range(0, len(dev)):
                found = None
                for sub in itertools.combinations(sorted(dev), k):
                    subdev = {a: dev[a] for a in sub}
                    b2, _ = load_and_check(dict(spec_of(subdev, case['fill']), **sizes))
                    if any(a2 == attr and k2 == kind for a2, k2, _, _ in b2):
                        found = subdev
                        break
                if found is not None:
                    culprit = found
                    break
        sig = '%s/load/%s/%s/%s%s' % (PROP, attr, kind, dev_key(culprit),
                                       ''.join(',%s=%s' % kv for kv in sorted(sizes.items())))
        acc.violation(sig, core.make_record(PROP, 'load', sig,
                                            case=dict({'dev': culprit, 'fill': case['fill']},
                                                      **({'sizes': sizes} if sizes else {})),
                                            op={'attribute': attr, 'seen_in': dev},
                                            expected=exp, observed=got), len(culprit) * 10 ** 6 + order)


def run_regen(case, acc, order):
    """A history over one directory: a dataset is written and loaded, then another dataset (other
    sampling rate, raw channel count, sample type and header offset) is written under the same path and
    loaded in the same process: the second model shows the second dataset."""
    import shutil
    from phylib.io.model import load_model
    with core.Scratch() as d:
        acc.state()
        for step, spec in enumerate(case['specs']):
            if step:
                shutil.rmtree(str(d / 'ds'))
            tr = dsgen.make_dataset(d / 'ds', dict(spec, fill=case.get('fill', 0) + step))
            bad = []
            try:
                m = load_model(tr['params_path'])
                try:
                    sr = float(spec['sample_rate'])
                    samples = tr['spike_samples'].astype(np.float64)
                    if float(m.sample_rate) != sr:
                        bad.append(('sample_rate', 'value', sr, float(m.sample_rate)))
                    if not np.array_equal(np.asarray(m.spike_times, dtype=np.float64), samples / sr):
                        bad.append(('spike_times', 'value', describe(samples / sr), describe(m.spike_times)))
                    exp = tr['raw'][:, tr['channel_map']]
                    got = np.asarray(m.traces[:])
                    if got.shape != exp.shape or got.dtype != exp.dtype or not np.array_equal(got, exp):
                        bad.append(('traces', 'value', describe(exp), describe(got)))
                finally:
                    m.close()
            except Exception as e:
                import traceback
                bad.append(('load', type(e).__name__, 'a model', traceback.format_exc()[-500:]))
            acc.step(step > 0, 'load:after-rewrite' if step else 'load:first')
            for attr, kind, exp_, got_ in bad:
                sig = '%s/load-history/%s/%s/%s' % (PROP, attr, kind, 'after-rewrite-in-place' if step else 'first')
                acc.violation(sig, core.make_record(PROP, 'load-history', sig, case=case, op={'step': step},
                                                    expected=exp_, observed=got_), order * 10 + step)
            if bad:
                return


def explore(ctx):
    K = 4 if ctx.thorough else 3
    fills = [ctx.seed, ctx.seed + 1]
    cases = []
    for k in range(0, K + 1):
        for dev in deviations(k):
            for fill in (fills if k <= 1 else fills[:1]):
                cases.append({'dev': dev, 'fill': fill})
    ctx.bounds = {'axes': {a: [str(x) for x in v] for a, v in AXES}, 'max_deviations': K,
                  'sizes': {k: dsgen.DEFAULTS[k] for k in ('n_spikes', 'n_templates', 'n_channels',
                                                            'nsw', 'n_raw')}}
    ctx.rule = ('state = one generated dataset directory (default + <= k deviating option axes, every '
                'value combination); transition = load_model on it, every public attribute compared '
                'with the generator\'s ground truth and the directory hashed before/after; non-trivial '
                '= at least one deviation from the default layout')
    ctx.assumptions = ['>= 2 spikes and templates (a one-template file squeezes to a 2-D array and is refused); '
                       'one-channel probes are covered by their own sweep',
                       'at NaN/inf positions of memory-mapped arrays either the stored value or 0 is '
                       'accepted (the statement speaks of fully loaded arrays)',
                       'ALF naming implies column-sparse templates',
                       'a template that is NaN on one whole channel is combined with uncurated clusters '
                       'only (with curated clusters the loader has to pick the largest channel of that '
                       'template, which does not exist; not a well-formed dataset)']
    ctx.run_cases(run_case, cases, sweep='deviation-bounded')
    # a probe with a single channel (every vector has length one: squeezing must not drop the axis)
    cases = [{'dev': dev, 'fill': ctx.seed, 'sizes': {'n_channels': 1}}
             for k in (0, 1, 2 if ctx.thorough else 1) for dev in deviations(k)
             if dev.get('content') != 'inf_wm']      # a 1x1 whitening matrix [[inf]] has no inverse
    cases = [c for i, c in enumerate(cases) if c not in cases[:i]]
    ctx.run_cases(run_case, cases, sweep='one-channel')
    ctx.notes['deviations_completed'] = K
    # histories over one directory: loaded, rewritten in place with other parameters, loaded again
    A = {'sample_rate': 100.0, 'n_channels': 4, 'raw_extra_channels': 0, 'raw_dtype': 'int16', 'raw_offset': 0}
    B = {'sample_rate': 2500.5, 'n_channels': 4, 'raw_extra_channels': 2, 'raw_dtype': 'float32', 'raw_offset': 6}
    C_ = {'sample_rate': 25000.0, 'n_channels': 3, 'raw_extra_channels': 1, 'raw_dtype': 'int16', 'raw_offset': 0,
          'naming': 'alf'}
    cases = [{'specs': list(seq), 'fill': ctx.seed, 'regen': True}
             for seq in itertools.permutations((A, B, C_), 2)] + [{'specs': [A, B, C_], 'fill': ctx.seed, 'regen': True}]
    ctx.run_cases(run_regen, cases, chunk=1, sweep='rewrite-in-place-and-reload')


def replay(record):
    imports()
    if record['case'].get('regen'):
        return core.replay_case(run_regen, record)
    return core.replay_case(run_case, record)
