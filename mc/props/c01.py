# -*- coding: utf-8 -*-
"""C01 -- raw-data reader indexing equals NumPy indexing of the concatenated recording.

space mode: every layout (backend x dtype x channels x header offset x every composition of
the length into files) is built for real; every supported index expression is applied to
the reader and to the ground-truth array.
"""
import itertools

import numpy as np

from .. import core
from ..gen import layouts
from ..util import arr_equal, compositions, describe

PROP = 'C01'


def imports():
    core.import_phylib('phylib.io.traces')


# ---------------------------------------------------------------------------
# operation alphabet
# ---------------------------------------------------------------------------

def row_indices(n, with_lists=True):
    """Yield (descriptor, python object). Descriptors are JSON-able and rebuildable."""
    for i in range(-n, n):
        for t in ('int', 'int64', 'int32') + (('uint64', 'uint8') if i >= 0 else ()):
            yield {'k': 'int', 'v': i, 't': t}
    bounds = [None] + list(range(-n, n + 1))
    ref = np.arange(n)
    for start in bounds:
        for stop in bounds:
            for step in (None, 1):
                if len(ref[slice(start, stop, step)]) >= 1:
                    yield {'k': 'slice', 'v': [start, stop, step]}
    if with_lists:
        for k in range(1, n + 1):
            for sub in itertools.combinations(range(n), k):
                for t in ('list', 'int64', 'intp'):
                    yield {'k': 'idx', 'v': list(sub), 't': t}
                if k <= 2 or k == n:
                    # index arrays of the other integer types a caller may hold (spike samples are
                    # stored unsigned)
                    for t in ('uint64', 'int32', 'uint8', 'int16'):
                        yield {'k': 'idx', 'v': list(sub), 't': t}


def make_row(d):
    if d['k'] == 'int':
        return {'int': int, 'int64': np.int64, 'int32': np.int32, 'uint64': np.uint64,
                'uint8': np.uint8}[d['t']](d['v'])
    if d['k'] == 'slice':
        return slice(*d['v'])
    if d['t'] == 'list':
        return list(d['v'])
    return np.array(d['v'], dtype=np.dtype(d['t']))


def col_selectors(nc):
    out = [{'k': 'none'}, {'k': 'slice', 'v': [None, None, None]}, {'k': 'slice', 'v': [0, 2, None]},
           {'k': 'slice', 'v': [None, None, -1]}, {'k': 'list', 'v': [nc - 1]}]
    if nc >= 2:
        out.append({'k': 'list', 'v': [nc - 1, 0]})
        out.append({'k': 'slice', 'v': [1, None, None]})
    out.append({'k': 'ndarray', 'v': list(range(nc))[::-1][1:] + [nc - 1]})  # a permutation
    return out


def make_col(d):
    if d['k'] == 'slice':
        return slice(*d['v'])
    if d['k'] == 'list':
        return list(d['v'])
    if d['k'] == 'ndarray':
        return np.array(d['v'], dtype=np.int64)
    return None


def row_kind(d):
    if d['k'] == 'int':
        return 'int' if d['t'] == 'int' else 'npint'
    if d['k'] == 'slice':
        return 'slice'
    base = 'list' if d['t'] == 'list' else 'ndarray'
    return base + (',len>=2' if len(d['v']) >= 2 else ',len=1')


def nontrivial_row(d, n, part_bounds):
    inner = set(part_bounds[1:-1])
    if d['k'] == 'int':
        i = d['v']
        return i < 0 or (i % n) in inner or (i % n) + 1 in inner
    if d['k'] == 'slice':
        start, stop, _ = d['v']
        if (start is not None and start < 0) or (stop is not None and stop < 0):
            return True
        s, e, _ = slice(start, stop).indices(n)
        return s in inner or e in inner or any(s < b < e for b in inner)
    idx = d['v']
    parts = set(np.searchsorted(part_bounds, idx, 'right'))
    return len(parts) >= 2 or bool(inner & set(idx))


# ---------------------------------------------------------------------------
# one layout
# ---------------------------------------------------------------------------

def run_case(case, acc, order):
    lay = case['layout']
    only = case.get('only_op')
    n = int(sum(lay['parts']))
    nc = lay['n_channels']
    backend = lay['backend']
    fam = 'cbin' if backend.startswith('cbin') else backend
    pb = [0] + [int(x) for x in np.cumsum(lay['parts'])]
    with core.Scratch() as d:
        try:
            reader, A = layouts.build_reader(d, lay)
        except Exception as e:
            sig = '%s/build/%s/%s' % (PROP, fam, type(e).__name__)
            acc.state()
            acc.step(True, 'build-failed')
            acc.violation(sig, core.make_record(PROP, 'build', sig, case=case, expected='a reader',
                                                observed=describe(e)), order)
            return
        acc.state()
        try:
            # attributes
            attrs = {}
            for name, exp in (('shape', A.shape), ('n_samples', n), ('n_channels', nc),
                              ('dtype', A.dtype), ('duration', n / float(lay['sample_rate']))):
                try:
                    got = getattr(reader, name)
                    if name == 'dtype':
                        ok = np.dtype(got).newbyteorder('=') == exp.newbyteorder('=')
                    elif name == 'shape':
                        ok = tuple(int(x) for x in got) == tuple(exp)
                    else:
                        ok = got == exp
                except Exception as e:
                    got, ok = e, False
                attrs[name] = got
                acc.step(len(lay['parts']) > 1 or lay.get('offset', 0) > 0, 'attr')
                if not ok:
                    sig = '%s/attrs/%s/%s' % (PROP, fam, name)
                    acc.violation(sig, core.make_record(PROP, 'attrs', sig, case=case,
                                                        op={'attr': name}, expected=exp,
                                                        observed=describe(got) if isinstance(
                                                            got, BaseException) else got), order)
            acc.extra['part_bounds_recorded'] += 1
            cols = col_selectors(nc)
            opi = -1
            for rd in row_indices(n, with_lists=(fam != 'cbin')):
                r = make_row(rd)
                nt_row = nontrivial_row(rd, n, pb)
                is_full = rd['k'] == 'slice' and rd['v'] == [None, None, None]
                for cd in cols:
                    for lazy in ((False, True) if cd['k'] != 'none' else (False,)):
                        opi += 1
                        if only is not None and opi != only:
                            continue
                        c = make_col(cd)
                        # expected: rows then columns, an integer selects one row kept 2-D
                        rr = [int(r)] if rd['k'] == 'int' else r
                        exp = A[rr]
                        if c is not None:
                            exp = exp[:, c]
                        # "the single array obtained by concatenating the files" has native byte
                        # order (np.concatenate), so byte order is not part of the comparison
                        exp = exp.astype(exp.dtype.newbyteorder('='))
                        try:
                            if c is None:
                                got = reader[r]
                            elif lazy:
                                sub = reader[:, c]
                                got = sub[r]
                            else:
                                got = reader[r, c]
                            if not isinstance(got, np.ndarray) and hasattr(got, '_append_op'):
                                # reader[:, c] is a lazy reader: compare its full content
                                got = got[:]
                        except Exception as e:
                            got = e
                        if isinstance(got, np.ndarray):
                            got = np.asarray(got)
                            got = got.astype(got.dtype.newbyteorder('='))
                        ok = isinstance(got, np.ndarray) and arr_equal(got, exp)
                        acc.step(nt_row or c is not None,
                                 'rows=%s' % rd['k'] + (',cols' if c is not None else ''))
                        if not ok:
                            if isinstance(got, BaseException):
                                kind = type(got).__name__
                            elif not isinstance(got, np.ndarray):
                                kind = 'type'
                            elif got.shape != exp.shape:
                                kind = 'shape'
                            elif got.dtype != exp.dtype:
                                kind = 'dtype'
                            else:
                                kind = 'value'
                            ck = cd['k'] if not lazy else 'lazy-' + cd['k']
                            sig = '%s/index/%s/rows=%s,cols=%s/%s' % (PROP, fam, row_kind(rd), ck, kind)
                            acc.violation(sig, core.make_record(
                                PROP, 'index', sig, case=dict(case, only_op=opi),
                                op={'rows': rd, 'cols': cd, 'lazy': lazy},
                                expected=describe(exp), observed=describe(got)),
                                order * 100000 + opi)
        finally:
            layouts.close_reader(reader)
    if order % 97 == 0:
        acc.sample({'layout': lay, 'ops': 'every int in [-n,n) x 3 int types, every non-empty unit '
                    'slice, every increasing index list x 3 container types, x %d column selectors '
                    '(eager and lazy)' % len(col_selectors(nc))})


def run_pairs(case, acc, order):
    lay = case['layout']
    n = int(sum(lay['parts']))
    fam = 'cbin' if lay['backend'].startswith('cbin') else lay['backend']
    rows = [d for d in row_indices(n, with_lists=(fam != 'cbin'))
            if (d['k'] == 'int' and d['t'] == 'int' and d['v'] in (0, n - 1, -1)) or
            (d['k'] == 'slice' and d['v'] in ([None, None, None], [1, n - 1, None], [-2, None, None],
                                              [0, 1, None])) or
            (d['k'] == 'idx' and d['t'] == 'int64' and len(d['v']) in (1, n) or
             (d['k'] == 'idx' and d['t'] == 'list' and d['v'] == [0, n - 1]))]
    cols = col_selectors(lay['n_channels'])[:4]
    ops = [(rd, cd) for rd in rows for cd in cols]
    with core.Scratch() as d:
        reader, A = layouts.build_reader(d, lay)
        try:
            acc.state()

            def read(rd, cd):
                r, c = make_row(rd), make_col(cd)
                rr = [int(r)] if rd['k'] == 'int' else r
                exp = A[rr] if c is None else A[rr][:, c]
                exp = exp.astype(exp.dtype.newbyteorder('='))
                try:
                    got = reader[r] if c is None else reader[r, c]
                    if not isinstance(got, np.ndarray) and hasattr(got, '_append_op'):
                        got = got[:]
                    got = np.asarray(got)
                    got = got.astype(got.dtype.newbyteorder('='))
                except Exception as e:
                    got = e
                return exp, got
            if lay.get('iterate'):
                # the recording is first walked through once with the reader's own chunk iterator
                for i0, i1 in reader.iter_chunks():
                    np.asarray(reader[i0:i1])
            for i, (r1, c1) in enumerate(ops):
                for j, (r2, c2) in enumerate(ops):
                    read(r1, c1)
                    exp, got = read(r2, c2)
                    acc.step(i != j, 'pair')
                    if not (isinstance(got, np.ndarray) and arr_equal(got, exp)):
                        sig = '%s/index-history/%s/second-read-wrong-after-another-read' % (PROP, fam)
                        acc.violation(sig, core.make_record(
                            PROP, 'index-history', sig, case=case,
                            trace=[{'rows': r1, 'cols': c1}, {'rows': r2, 'cols': c2}],
                            expected=describe(exp), observed=describe(got)), order * 10 ** 6 + i * 1000 + j)
                        return
        finally:
            layouts.close_reader(reader)
    if order % 7 == 0:
        acc.sample({'read_pairs_on': lay, 'ops': len(ops)})


def run_rewrite(case, acc, order):
    """A history over one directory: a recording is written, opened, read and closed; then another
    recording is written under the same file names and opened by a fresh reader."""
    with core.Scratch() as d:
        acc.state()
        for step, lay in enumerate(case['layouts']):
            n = int(sum(lay['parts']))
            fam = 'cbin' if lay['backend'].startswith('cbin') else lay['backend']
            reader = None
            try:
                reader, A = layouts.build_reader(d, lay)
                exp = A.astype(A.dtype.newbyteorder('='))
                shape = tuple(int(x) for x in reader.shape)
                got = np.asarray(reader[:])
                got = got.astype(got.dtype.newbyteorder('='))
                last = np.asarray(reader[n - 1])
                bad = None
                if shape != exp.shape:
                    bad = ('shape', list(shape))
                elif not arr_equal(got, exp):
                    bad = ('content', describe(got))
                elif not arr_equal(last.astype(last.dtype.newbyteorder('=')), exp[[n - 1]]):
                    bad = ('last-row', describe(last))
            except Exception as e:
                exp = None
                bad = (type(e).__name__, describe(e))
            finally:
                if reader is not None:
                    layouts.close_reader(reader)
            acc.step(step > 0, 'reopen' if step else 'open')
            if bad:
                sig = '%s/reopen/%s/%s%s' % (PROP, fam, 'after-rewrite/' if step else '', bad[0])
                acc.violation(sig, core.make_record(
                    PROP, 'reopen', sig, case=case, op={'step': step, 'layout': lay},
                    expected=describe(exp) if exp is not None else 'a reader on the files as they are now',
                    observed=bad[1]), order * 10 + step)
                return
    if order % 5 == 0:
        acc.sample({'rewrite_history': [l['parts'] for l in case['layouts']],
                    'backend': case['layouts'][0]['backend']})


def rewrite_cases(ctx):
    cases = []
    seqs = [('flat', [[3, 2], [4, 4]]), ('flat', [[4, 4], [3, 2]]), ('flat', [[3, 2], [3, 2]]),
            ('flat', [[5], [2], [6]]), ('npy', [[5], [7]]), ('npy', [[5], [5]]), ('npy', [[6], [2]]),
            ('cbin', [[4], [6]]), ('cbin', [[4], [4]]),
            # recordings in more than ten files (names that sort differently as text and as numbers)
            ('flat', [[1] * 12]), ('flat', [[2, 1] * 7, [1] * 11])]
    for backend, seq in seqs:
        for dts in (('int16', 'int16'), ('int16', 'float32'), ('float64', 'uint8')):
            for off in ((0, 5) if backend == 'flat' else (0,)):
                lays = []
                for k, parts in enumerate(seq):
                    lay = {'backend': backend, 'dtype': dts[k % 2], 'n_channels': 3, 'parts': parts,
                           'sample_rate': 1000.0, 'fill': ctx.seed + 4 * k}   # +4: same file names
                    if backend == 'flat':
                        lay['offset'] = off
                    if backend == 'cbin':
                        lay['chunk'] = 2
                    lays.append(lay)
                cases.append({'layouts': lays, 'rewrite': True})
    return cases


def layout_cases(ctx):
    thorough = ctx.thorough
    N = 8 if thorough else 6
    chans = [1, 2, 3] if thorough else [1, 3]
    # '>i2' / '>f4': a sample type whose byte order is not the native one
    dtypes = ['int16', 'float32', 'float64', 'uint8', '>i2'] + (['int32', 'uint16', '>f4'] if thorough else [])
    offsets = [0, 1, 5, 16] if thorough else [0, 5]
    rates = [2 / 600.0, 1000.0]
    cases = []
    i = 0
    # flat: every composition; the (dtype, channels, offset, rate) product is complete for n <= 4
    # and rotates (covering each value of each axis) above, seed-shifted
    for n in range(1, N + 1):
        for comp in compositions(n):
            combos = list(itertools.product(dtypes, chans, offsets, rates))
            if n > 4:
                k = len(combos)
                step = 7 if not thorough else 3
                combos = [combos[(i * 5 + j * step + ctx.seed) % k] for j in range(4 if not thorough else 8)]
            for (dt, nc, off, sr) in combos:
                cases.append({'layout': {'backend': 'flat', 'dtype': dt, 'n_channels': nc,
                                         'offset': off, 'parts': list(comp), 'sample_rate': sr,
                                         'fill': ctx.seed + i}})
                i += 1
    # single-part backends
    native = [dt for dt in dtypes if not dt.startswith('>')]
    for backend in ('array', 'npy'):
        for n in range(1, N + 1):
            for dt in dtypes:
                for nc in chans:
                    cases.append({'layout': {'backend': backend, 'dtype': dt, 'n_channels': nc,
                                             'parts': [n], 'sample_rate': rates[i % 2],
                                             'fill': ctx.seed + i}})
                    i += 1
    for backend in ('cbin', 'cbin_reader'):
        for n in range(1, N + 1):
            for chunk in sorted(set([1, 2, n])):
                for dt in native:
                    nc = chans[i % len(chans)]
                    cases.append({'layout': {'backend': backend, 'dtype': dt, 'n_channels': nc,
                                             'parts': [n], 'sample_rate': 1000.0, 'chunk': chunk,
                                             'threads': 1 + i % 3, 'fill': ctx.seed + i}})
                    i += 1
    return cases


def explore(ctx):
    cases = layout_cases(ctx)
    ctx.bounds = {'n_max': 8 if ctx.thorough else 6, 'backends': ['flat', 'array', 'npy', 'cbin',
                                                                 'cbin_reader'],
                  'flat_compositions': 'all', 'layouts': len(cases)}
    ctx.rule = ('state = one layout built on disk (backend, dtype, channels, header offset, '
                'composition of n into files, chunk grid); transition = one index expression '
                'reader[rows(, cols)] or reader[:, cols][rows] compared in value, shape and dtype '
                'with NumPy on the concatenated ground-truth array; non-trivial = the rows span >= 2 '
                'files, touch a file boundary or use a negative bound, or a column selector is present')
    ctx.assumptions = ['NumPy indexing of the generator\'s in-memory array is the reference semantics',
                       'multi-file layouts exist for flat binaries only (npy refuses, cbin documents '
                       'it as unsupported)', 'index lists are not applied to compressed readers '
                       '(their decoder does not offer it)']
    ctx.run_cases(run_case, cases, chunk=4, sweep='layouts')
    # histories of two reads on one reader
    pcases = []
    for backend, parts, extra in (('flat', [2, 3], {'offset': 5}), ('flat', [1, 2, 2], {'offset': 0}),
                                  ('array', [5], {}), ('npy', [5], {}),
                                  ('cbin', [5], {'chunk': 2}), ('cbin_reader', [5], {'chunk': 2, 'threads': 2})):
        for dt in ('int16', 'float32'):
            lay = dict({'backend': backend, 'dtype': dt, 'n_channels': 3, 'parts': parts,
                        'sample_rate': 2 / 600.0, 'fill': ctx.seed}, **extra)
            pcases.append({'layout': lay, 'pairs': True})
    # ... and after a full pass of the chunk iterator over a compressed recording of 40 chunks
    for backend in ('cbin', 'cbin_reader'):
        pcases.append({'layout': {'backend': backend, 'dtype': 'int16', 'n_channels': 3, 'parts': [40],
                                  'sample_rate': 10.0, 'chunk': 10 if backend == 'cbin' else 1, 'threads': 2,
                                  'iterate': True, 'fill': ctx.seed}, 'pairs': True})
    ctx.run_cases(run_pairs, pcases, chunk=1, sweep='read-pairs')
    # histories over one directory: written, opened, closed, rewritten under the same names, reopened
    ctx.run_cases(run_rewrite, rewrite_cases(ctx), chunk=2, sweep='rewrite-reopen')


def replay(record):
    imports()
    if (record.get('case') or {}).get('rewrite'):
        return core.replay_case(run_rewrite, record)
    if (record.get('case') or {}).get('pairs'):
        return core.replay_case(run_pairs, record)
    return core.replay_case(run_case, record)
