# -*- coding: utf-8 -*-
"""C03, sweep D: the TemplateModel routes to a waveform (get_waveforms from the raw data,
save_spikes_subset_waveforms + get_waveforms from the store) on generated datasets with spikes
at the recording boundaries, unsigned spike times, permuted channel maps and multi-file raw data."""
import itertools

import numpy as np

from .. import core
from ..gen import dsgen
from ..util import describe

PROP = 'C03'


def window(A, s, nsw, ch):
    n = A.shape[0]
    W = np.zeros((nsw, len(ch)), dtype=A.dtype)
    t0 = int(s) - nsw // 2
    for i in range(nsw):
        t = t0 + i
        if 0 <= t < n:
            for j, c in enumerate(ch):
                if c != -1:
                    W[i, j] = A[t, c]
    return W


def run_case(case, acc, order):
    from phylib.io.model import load_model
    spec = case['spec']
    bad = []
    with core.Scratch() as d:
        tr = dsgen.make_dataset(d / 'ds', spec)
        m = load_model(tr['params_path'])
        try:
            acc.state()
            s = tr['spec']
            ns, nc, nsw = s['n_spikes'], s['n_channels'], s['nsw']
            A = tr['raw'][:, tr['channel_map']]
            samples = [int(x) for x in tr['spike_samples']]
            id_lists = [[i] for i in range(ns)] + [list(range(ns)), list(range(ns))[::-1], [ns - 1, 0]]
            chan_lists = [None, [1], [nc - 1, 0]]

            stored_for = {}      # spike -> channels held by the subset store (filled after an export)

            def query(tag, factor, dtype_exp):
                for ids in id_lists:
                    for ch in chan_lists:
                        chl = list(range(nc)) if ch is None else ch
                        if tag.startswith('store') and any(c not in stored_for.get(i, chl)
                                                           for i in ids for c in chl):
                            # the statement claims nothing about channels the store does not hold
                            common = [c for c in range(nc)
                                      if all(c in stored_for.get(i, range(nc)) for i in ids)]
                            if len(common) < 2:
                                continue
                            ch = chl = [common[-1], common[0]]
                        exp = np.stack([window(A, samples[i], nsw, chl) for i in ids]).astype(
                            np.float64) * factor
                        try:
                            got = m.get_waveforms(np.array(ids), None if ch is None else np.array(ch))
                        except Exception as e:
                            got = e
                        edge = any(samples[i] < nsw or samples[i] >= A.shape[0] - nsw for i in ids)
                        acc.step(edge or ids != sorted(ids), 'D:%s' % tag)
                        ok = isinstance(got, np.ndarray) and got.shape == exp.shape and \
                            np.array_equal(np.asarray(got, dtype=np.float64), exp, equal_nan=True)
                        if ok and dtype_exp is not None and got.dtype != dtype_exp:
                            ok = False
                        if not ok:
                            kind = type(got).__name__ if isinstance(got, BaseException) else (
                                'shape' if got.shape != exp.shape else
                                ('value' if not np.array_equal(np.asarray(got, dtype=np.float64), exp, equal_nan=True)
                                 else 'dtype'))
                            bad.append(('model-' + tag, kind, {'spikes': ids, 'channels': ch},
                                        describe(exp), describe(got)))
                            return
            query('raw', 1.0, A.dtype)
            # the per-template / per-cluster convenience routes: all spikes of the unit on its channels
            st = tr['spike_templates'].astype(np.int64)
            for t in sorted(set(st.tolist())):
                ids = [i for i in range(ns) if st[i] == t]
                for name, call in (('get_template_spike_waveforms', lambda: m.get_template_spike_waveforms(t)),
                                   ('get_cluster_spike_waveforms', lambda: m.get_cluster_spike_waveforms(t))):
                    try:
                        chl = [int(c) for c in m.get_template_channels(t)]
                        got = call()
                        exp = np.stack([window(A, samples[i], nsw, chl) for i in ids]).astype(np.float64)
                        ok = isinstance(got, np.ndarray) and got.shape == exp.shape and \
                            np.array_equal(np.asarray(got, dtype=np.float64), exp, equal_nan=True)
                    except Exception as e:
                        got, ok, exp = e, False, None
                    acc.step(True, 'D:unit-route')
                    if not ok:
                        bad.append(('model-' + name, type(got).__name__ if isinstance(got, BaseException)
                                    else 'value', {'unit': int(t), 'spikes': ids},
                                    describe(exp) if exp is not None else None, describe(got)))
                        break
            # a store that holds a strict subset of the spikes (one per template): requests naming
            # only stored spikes, only unstored ones, and both must all give the raw window
            try:
                orig = np.random.choice
                # the scripted draw returns its picks in descending order (a draw is not sorted)
                fm = case.get('first_max', 1)
                np.random.choice = lambda a, size=None, replace=True, p=None: (
                    np.asarray(a)[:size][::-1] if fm == 1 else np.asarray(a)[[-1, 0, -2][:size]])
                m.save_spikes_subset_waveforms(max_n_spikes_per_template=case.get('first_max', 1),
                                               sample2unit=1.0)
                sid = np.load(str(d / 'ds' / '_phy_spikes_subset.spikes.npy'))
                sch = np.load(str(d / 'ds' / '_phy_spikes_subset.channels.npy'))
                stored_for.clear()
                for r, i in enumerate(sid.tolist()):
                    stored_for[int(i)] = [int(c) for c in sch[r] if c != -1]
                ok_subset = m.spike_waveforms is not None and 0 < len(sid) < ns
            except Exception:
                ok_subset = False
            finally:
                np.random.choice = orig
            if ok_subset:
                acc.step(True, 'D:subset-export')
                query('store-subset', 1.0, None)
            # a first, smaller export with another unit factor: the second export must replace it
            try:
                orig = np.random.choice
                np.random.choice = lambda a, size=None, replace=True, p=None: np.asarray(a)[:size]
                m.save_spikes_subset_waveforms(max_n_spikes_per_template=1, sample2unit=7.0)
            except Exception:
                pass
            finally:
                np.random.choice = orig
            for factor in case['factors']:
                try:
                    m.save_spikes_subset_waveforms(max_n_spikes_per_template=10, sample2unit=factor)
                    stored = m.spike_waveforms is not None
                except Exception as e:
                    import traceback
                    bad.append(('model-subset-export', type(e).__name__, {'factor': repr(factor)},
                                'files written', traceback.format_exc()[-500:]))
                    break
                acc.step(True, 'D:export')
                if not stored:
                    bad.append(('model-subset-export', 'store-not-loaded', {'factor': repr(factor)},
                                'a store', None))
                    break
                W = np.load(str(d / 'ds' / '_phy_spikes_subset.waveforms.npy'))
                sid = np.load(str(d / 'ds' / '_phy_spikes_subset.spikes.npy'))
                sch = np.load(str(d / 'ds' / '_phy_spikes_subset.channels.npy'))
                if sorted(sid.tolist()) != list(range(ns)) or W.shape[:2] != (ns, nsw) or \
                        sch.shape[0] != ns:
                    bad.append(('model-subset-export', 'files', {'factor': repr(factor)},
                                'all %d spikes stored' % ns, {'spikes': sid.tolist(),
                                                               'shape': list(W.shape)}))
                    break
                # every stored row is the window on its stored channels
                for r, i in enumerate(sid.tolist()):
                    chl = [int(c) for c in sch[r]]
                    exp = window(A, samples[i], nsw, chl).astype(np.float64) * float(factor)
                    if not np.array_equal(W[r].astype(np.float64), exp):
                        bad.append(('model-subset-export', 'stored-window', {'spike': i, 'channels': chl},
                                    describe(exp), describe(W[r])))
                        break
                stored_for.clear()
                for r, i in enumerate(sid.tolist()):
                    stored_for[int(i)] = [int(c) for c in sch[r] if c != -1]
                query('store', float(factor), None)
        finally:
            m.close()
    for attr, kind, op, exp, got in bad:
        sig = '%s/%s/%s' % (PROP, attr, kind)
        acc.violation(sig, core.make_record(PROP, 'model-routes', sig, case=case, op=op, expected=exp,
                                            observed=got), order)
    if order % 13 == 0:
        acc.sample({'sweep': 'D', 'spec': {k: spec.get(k) for k in ('raw_dtype', 'raw_files', 'raw_offset',
                                                               'channel_map', 'time_dtype', 'nsw',
                                                               'spike_samples')}})


def explore(ctx):
    cases = []
    n_raw = 30
    i = 0
    for raw_dtype in ('int16', 'float32'):
        for raw_files, off in ((1, 0), (2, 7), (3, 0)):
            for cmap in ('identity', 'perm', 'sub'):
                for tdt in ('uint64', 'int64'):
                    for nsw in (4, 3, 5):
                        if not ctx.thorough and (i + ctx.seed) % 3:
                            i += 1
                            continue
                        i += 1
                        spikes = [0, 1, 2, 9, 10, n_raw - 2, n_raw - 1]
                        spec = {'n_spikes': len(spikes), 'n_templates': 3, 'n_channels': 4, 'nsw': nsw,
                                'n_raw': n_raw, 'spike_samples': spikes, 'raw': True,
                                'raw_dtype': raw_dtype, 'raw_files': raw_files, 'raw_offset': off,
                                'channel_map': cmap, 'time_dtype': tdt, 'features': 'absent',
                                'tfeatures': 'absent', 'sample_rate': [100.0, 10 / 600.0][i % 2],
                                'fill': ctx.seed + i}
                        if raw_dtype == 'float32' and (i // 3) % 2 == 0:
                            # inf / NaN / -inf samples inside the windows of three spikes: a window is
                            # returned as it is in the recording, by every route
                            spec['raw_nonfinite'] = True
                        cases.append({'spec': spec, 'factors': [1, 2.5] if i % 2 else [1.0, 2]})
    for cmap in ('identity', 'perm'):
        spikes = [0, 1, 2, 9, 10, n_raw - 2, n_raw - 1]
        cases.append({'spec': {'n_spikes': len(spikes), 'n_templates': 3, 'n_channels': 14,
                               'geometry': 'col14', 'nsw': 4, 'n_raw': n_raw, 'spike_samples': spikes,
                               'raw': True, 'raw_dtype': 'int16', 'channel_map': cmap,
                               'time_dtype': 'uint64', 'features': 'absent', 'tfeatures': 'absent',
                               'sample_rate': 100.0, 'fill': ctx.seed}, 'factors': [1, 2.5]})
    # a 272-channel probe: templates peaking on the highest channels, whose stored channel rows (ordered
    # by distance from the peak) are decreasing and name channels beyond 256
    spikes = [0, 1, 2, 9, 10, n_raw - 2, n_raw - 1]
    cases.append({'spec': {'n_spikes': len(spikes), 'n_templates': 3, 'n_channels': 272,
                           'geometry': 'col14', 'nsw': 4, 'n_raw': n_raw, 'spike_samples': spikes,
                           'profile': [[float(300 - abs(c - pk)) for c in range(272)] for pk in (271, 260, 5)],
                           'raw': True, 'raw_dtype': 'int16', 'channel_map': 'identity',
                           'time_dtype': 'uint64', 'features': 'absent', 'tfeatures': 'absent',
                           'sample_rate': 100.0, 'fill': ctx.seed}, 'factors': [1, 2.5]})
    # every spike belongs to one template (the others are unused), the first export draws 3 of the 7
    # spikes, the recording spans three chunks
    for tdt in ('uint64', 'int64'):
        spikes = [0, 1, 2, 9, 10, n_raw - 2, n_raw - 1]
        cases.append({'spec': {'n_spikes': len(spikes), 'n_templates': 3, 'n_channels': 4, 'nsw': 4,
                               'n_raw': n_raw, 'spike_samples': spikes, 'spike_templates': [0] * len(spikes),
                               'raw': True, 'raw_dtype': 'int16', 'raw_files': 2, 'channel_map': 'perm',
                               'time_dtype': tdt, 'features': 'absent', 'tfeatures': 'absent',
                               'sample_rate': 10 / 600.0, 'fill': ctx.seed},
                      'factors': [1, 2.5], 'first_max': 3})
    ctx.run_cases(run_case, cases, chunk=1, sweep='D-model-routes')
    ctx.bounds['D'] = {'spikes_at': [0, 1, 2, 9, 10, 'n-2', 'n-1'], 'raw_dtype': ['int16', 'float32'],
                       'raw_files': [1, 2, 3], 'channel_map': ['identity', 'perm', 'sub'],
                       'time_dtype': ['uint64', 'int64'], 'nsw': [3, 4, 5]}


def replay(record):
    core.import_phylib('phylib.io.model')
    acc = core.Acc()
    run_case(record['case'], acc, 0)
    return [dict(v['record'], signature=s) for s, v in acc.violations.items()]
