# -*- coding: utf-8 -*-
"""C05 -- template records are aligned with their channel list (dense and sparse storage).

space mode: datasets whose templates carry every permutation of distinct per-channel amplitude
levels (and tie profiles) on several probe geometries x whitening x neighbourhood size x
threshold x unwhiten x explicit channel lists; sparse storage over every column-table row with
-1 entries and all-zero columns.
"""
import itertools

import numpy as np

from .. import core
from ..gen import dsgen
from ..util import describe

PROP = 'C05'


def imports():
    core.import_phylib('phylib.io.model')


def ptp(x):
    return x.max(axis=0) - x.min(axis=0)


def nearest(pos, peak, k):
    d = ((pos - pos[peak]) ** 2).sum(axis=1)
    order = np.argsort(d, kind='stable')
    kk = min(k, len(order))
    # the cut-off must not fall inside a tie (generator's responsibility)
    tie = kk < len(order) and d[order[kk - 1]] == d[order[kk]]
    return set(int(c) for c in order[:kk]), tie


def check_record(rec, Tfull, exp_set, explicit, acc_bad, peak_unique, sparse=False):
    """Clauses of the statement on one returned record. Tfull = (n_samples, n_channels) reference
    template (already unwhitened when requested), float64."""
    try:
        ch = [int(c) for c in np.asarray(rec.channel_ids).tolist()]
        tpl = np.asarray(rec.template)
        amp = np.asarray(rec.amplitude)
    except Exception as e:
        acc_bad.append(('record', type(e).__name__, 'a record', repr(e)))
        return
    if tpl.ndim != 2 or tpl.shape[1] != len(ch):
        acc_bad.append(('template', 'shape', [Tfull.shape[0], len(ch)], list(tpl.shape)))
        return
    if any(c < 0 or c >= Tfull.shape[1] for c in ch):
        acc_bad.append(('channel_ids', 'out-of-range', 'channels of the probe', ch))
        return
    scale = max(1.0, float(np.abs(Tfull).max()))
    # column alignment
    if not np.allclose(tpl, Tfull[:, ch], rtol=1e-5, atol=1e-5 * scale):
        acc_bad.append(('template', 'columns-misaligned', describe(Tfull[:, ch].astype(np.float32)),
                        describe(tpl)))
    if explicit is not None:
        if ch != [int(c) for c in explicit]:
            acc_bad.append(('channel_ids', 'not-the-explicit-list', list(explicit), ch))
        # entry j of the amplitude vector is column j's peak-to-peak amplitude (the ordering clause
        # cannot apply to a caller-ordered list, the alignment clause can)
        a_cols = ptp(tpl) if tpl.size else np.zeros(0)
        if amp.shape != (len(ch),) or not np.allclose(amp, a_cols, rtol=1e-6, atol=1e-6 * scale):
            acc_bad.append(('amplitude', 'not-aligned-with-columns,explicit-list', describe(a_cols),
                            describe(amp)))
        return
    if len(set(ch)) != len(ch):
        acc_bad.append(('channel_ids', 'duplicates', 'distinct', ch))
    a_cols = ptp(tpl) if tpl.size else np.zeros(0)
    if amp.shape != (len(ch),):
        acc_bad.append(('amplitude', 'shape', [len(ch)], list(amp.shape)))
    elif not np.allclose(amp, a_cols, rtol=1e-6, atol=1e-6 * scale):
        acc_bad.append(('amplitude', 'not-aligned-with-columns', describe(a_cols), describe(amp)))
    if len(a_cols) >= 2 and np.any(np.diff(a_cols) > 1e-6 * scale):
        acc_bad.append(('channel_ids', 'not-decreasing-amplitude', 'non-increasing ptp', describe(a_cols)))
    full_amp = ptp(Tfull)
    peak = int(np.argmax(full_amp))
    if peak_unique and ch and ch[0] != peak:
        acc_bad.append(('channel_ids', 'peak-not-first', peak, ch))
    try:
        if peak_unique and int(rec.best_channel) != peak:
            acc_bad.append(('best_channel', 'value', peak, int(rec.best_channel)))
    except Exception:
        pass
    if exp_set is not None and set(ch) != exp_set:
        acc_bad.append(('channel_ids', 'wrong-set', sorted(exp_set), sorted(ch)))


def run_dense(case, acc, order):
    from phylib.io.model import load_model
    spec = case['spec']
    with core.Scratch() as d:
        tr = dsgen.make_dataset(d / 'ds', spec)
        # the directory is opened twice (the first open may leave cached files behind), and another
        # public query runs on the model before the templates are asked for
        m0 = load_model(tr['params_path'])
        m0.close()
        m = load_model(tr['params_path'])
        try:
            if order % 2 == 0:
                m.get_amplitudes_true()
        except Exception:
            pass
        try:
            acc.state()
            s = tr['spec']
            nt, nc = s['n_templates'], s['n_channels']
            pos = tr['channel_positions']
            shanks = tr['channel_shanks'] if tr['channel_shanks'] is not None else np.zeros(nc)
            # the inverse whitening matrix from the generator's matrix, not from the model
            wmi = np.eye(s['n_channels']) if tr['wm'] is None else (
                tr['wmi_file'] if tr.get('wmi_file') is not None else np.linalg.inv(tr['wm']))
            only = case.get('only_op')
            opi = -1
            for ncl, model_thr in [(n_, 0) for n_ in case['n_closest']] + [(case['n_closest'][0], 0.5)]:
                m.n_closest_channels = ncl
                m.amplitude_threshold = model_thr      # the model-wide default (public attribute)
                for t in range(nt):
                    Tw = tr['templates_dense'][t].astype(np.float64)
                    for unwhiten in (True, False):
                        Tref = Tw @ wmi if unwhiten else Tw
                        amp = ptp(Tref.astype(np.float32).astype(np.float64))
                        peak = int(np.argmax(amp))
                        srt = np.sort(amp)[::-1]
                        peak_unique = len(srt) < 2 or srt[0] - srt[1] > 1e-4 * srt[0]
                        near, tie = nearest(pos, peak, ncl)
                        for thr in (None, 0, 0.5, 1):
                            for explicit in (None, 'peak', 'two'):
                                opi += 1
                                if only is not None and only != opi:
                                    continue
                                t_eff = model_thr if thr is None else thr
                                cut = t_eff * amp[peak]
                                borderline = np.any((np.abs(amp - cut) < 1e-4 * amp[peak]) &
                                                    (np.abs(amp - cut) > 0)) if t_eff else False
                                exp_set = None
                                if peak_unique and not tie and not borderline:
                                    exp_set = set(c for c in near if shanks[c] == shanks[peak] and
                                                  amp[c] >= cut - 1e-9)
                                expl = None
                                if explicit == 'peak':
                                    expl = np.array([peak])
                                elif explicit == 'two':
                                    expl = np.array([nc - 1, 0])
                                kw = {}
                                if thr is not None:
                                    kw['amplitude_threshold'] = thr
                                try:
                                    if expl is not None:
                                        kw['channel_ids'] = expl
                                    if not unwhiten or t % 2:
                                        kw['unwhiten'] = unwhiten   # True is the default: left out for even t
                                    rec = m.get_template(t, **kw)
                                except Exception as e:
                                    rec = e
                                restricted = exp_set is not None and len(exp_set) < nc
                                acc.step(restricted or expl is not None, 'dense:%s' % (
                                    'explicit' if expl is not None else 'auto'))
                                bad = []
                                if isinstance(rec, BaseException):
                                    bad.append(('get_template', type(rec).__name__, 'a record', repr(rec)))
                                else:
                                    check_record(rec, Tref, exp_set, expl, bad, peak_unique)
                                for attr, kind, exp, got in bad:
                                    feat = ('explicit' if expl is not None else
                                            ('restricted' if restricted else 'all-channels'))
                                    sig = '%s/dense/%s/%s/%s' % (PROP, attr, kind, feat)
                                    acc.violation(sig, core.make_record(
                                        PROP, 'dense', sig, case=dict(case, only_op=opi),
                                        op={'template': t, 'n_closest': ncl, 'threshold': thr, 'model_threshold': model_thr,
                                            'unwhiten': unwhiten, 'explicit': explicit},
                                        expected=exp, observed=got), order * 10 ** 6 + opi)
                    # the convenience accessors agree with the record (default arguments)
                    opi += 1
                    if only is None or only == opi:
                        try:
                            rec = m.get_template(t)
                            ok1 = np.array_equal(m.get_template_channels(t), rec.channel_ids)
                            ok2 = np.array_equal(m.get_template_waveforms(t), rec.template)
                        except Exception as e:
                            ok1 = ok2 = False
                        acc.step(True, 'dense:accessors')
                        if not (ok1 and ok2):
                            sig = '%s/dense/accessors/disagree-with-record' % PROP
                            acc.violation(sig, core.make_record(
                                PROP, 'dense', sig, case=dict(case, only_op=opi), op={'template': t},
                                expected='same as get_template', observed=[ok1, ok2]),
                                order * 10 ** 6 + opi)
                # clusters: channels of the template holding most of the cluster's spikes
                st = tr['spike_templates'].astype(np.int64)
                sc = tr['spike_clusters'].astype(np.int64)
                for c in sorted(set(sc.tolist())):
                    opi += 1
                    if only is not None and only != opi:
                        continue
                    cnt = np.bincount(st[sc == c], minlength=nt)
                    winners = [int(i) for i in np.nonzero(cnt == cnt.max())[0]]
                    try:
                        got = [int(x) for x in m.get_cluster_channels(c)]
                        cands = [[int(x) for x in m.get_template(w).channel_ids] for w in winners]
                    except Exception as e:
                        got, cands = repr(e), []
                    acc.step(len(winners) == 1, 'dense:cluster-channels')
                    if got not in cands:
                        sig = '%s/dense/cluster_channels/value' % PROP
                        acc.violation(sig, core.make_record(
                            PROP, 'dense', sig, case=dict(case, only_op=opi), op={'cluster': int(c)},
                            expected=cands, observed=got), order * 10 ** 6 + opi)
        finally:
            m.close()
    if order % 7 == 0:
        acc.sample({'dense': {k: spec[k] for k in ('geometry', 'n_channels', 'n_templates', 'whitening',
                                                   'shanks')}, 'n_closest': case['n_closest']})


def run_sparse(case, acc, order):
    from phylib.io.model import load_model
    spec = case['spec']
    with core.Scratch() as d:
        tr = dsgen.make_dataset(d / 'ds', spec)
        m0 = load_model(tr['params_path'])
        m0.close()
        m = load_model(tr['params_path'])
        try:
            if order % 2 == 0:
                m.get_amplitudes_true()
        except Exception:
            pass
        try:
            acc.state()
            s = tr['spec']
            nt = s['n_templates']
            # the inverse whitening matrix from the generator's matrix, not from the model
            wmi = np.eye(s['n_channels']) if tr['wm'] is None else (
                tr['wmi_file'] if tr.get('wmi_file') is not None else np.linalg.inv(tr['wm']))
            cols = tr['templates_cols']
            data = tr['templates_data']
            only = case.get('only_op')
            opi = -1
            for t in range(nt):
                Tw = tr['templates_dense'][t].astype(np.float64)    # zero on unstored channels
                for unwhiten in (True, False):
                    opi += 1
                    if only is not None and only != opi:
                        continue
                    Tref = Tw @ wmi if unwhiten else Tw
                    mx = np.abs(data[t]).max(axis=0)
                    stored = [int(c) for j, c in enumerate(cols[t])
                              if c != -1 and mx[j] > mx.max() * 1e-6]
                    exp_set = set(stored)
                    amp = ptp(Tref[:, stored]) if stored else np.zeros(0)
                    srt = np.sort(amp)[::-1]
                    peak_unique = len(srt) < 2 or srt[0] - srt[1] > 1e-4 * srt[0]
                    try:
                        rec = m.get_template(t, unwhiten=unwhiten)
                    except Exception as e:
                        rec = e
                    special = (-1 in cols[t].tolist()) or len(stored) < sum(1 for c in cols[t] if c != -1)
                    acc.step(special, 'sparse:%s' % ('special' if special else 'plain'))
                    bad = []
                    if isinstance(rec, BaseException):
                        bad.append(('get_template', type(rec).__name__, 'a record', repr(rec)))
                    else:
                        # the reference restricted to stored channels: peak among stored channels
                        Tchk = np.zeros_like(Tref)
                        Tchk[:, stored] = Tref[:, stored]
                        check_record(rec, Tchk, exp_set, None, bad, peak_unique, sparse=True)
                    if not bad and unwhiten:
                        # the convenience accessors agree with the record (default arguments)
                        try:
                            rec0 = m.get_template(t)
                            ok1 = np.array_equal(m.get_template_channels(t), rec0.channel_ids)
                            ok2 = np.array_equal(m.get_template_waveforms(t), rec0.template)
                        except Exception:
                            ok1 = ok2 = False
                        if not (ok1 and ok2):
                            bad.append(('accessors', 'disagree-with-record', 'same as get_template', [ok1, ok2]))
                    for attr, kind, exp, got in bad:
                        sig = '%s/sparse/%s/%s/%s' % (PROP, attr, kind,
                                                      'with-unused-or-zero' if special else 'plain')
                        acc.violation(sig, core.make_record(
                            PROP, 'sparse', sig, case=dict(case, only_op=opi),
                            op={'template': t, 'unwhiten': unwhiten, 'cols': cols[t].tolist()},
                            expected=exp, observed=got), order * 10 ** 6 + opi)
        finally:
            m.close()
    if order % 5 == 0:
        acc.sample({'sparse_cols_first_rows': case['spec']['sparse_cols'][:4],
                    'whitening': spec['whitening']})


def run_case(case, acc, order):
    (run_sparse if case['kind'] == 'sparse' else run_dense)(case, acc, order)


def profiles(nc, tier, seed):
    levels = list(range(1, nc + 1))
    if nc <= 6:
        perms = list(itertools.permutations(levels))
        if False:
            k = 120
            step = max(1, len(perms) // k)
            perms = perms[seed % step::step][:k]
    else:
        # rotating family on the 14-channel probe (14! permutations cannot be enumerated)
        perms = [tuple(int(x) for x in np.roll(levels, (r * 3 + seed) % nc)[::(-1 if r % 2 else 1)])
                 for r in range(40)]
    out = [list(p) for p in perms]
    # profiles with tied non-peak amplitudes
    out.append([nc + 1] + [2] * (nc - 1))
    out.append([1] * (nc - 1) + [nc])
    t3 = [2, 2, 1][:nc - 1] + [1] * max(0, nc - 4)
    out.append(([3] + t3 + [1] * nc)[:nc])
    return out


def dense_cases(ctx):
    cases = []
    geos = [('line', 4, 'absent'), ('grid', 6, 'absent'), ('twoshank', 6, 'two'), ('col14', 14, 'absent'),
            ('twoshank_close', 6, 'two'), ('twoshank_close', 14, 'two'),
            # near-ties at the 12-channel cut-off that single precision or rounding would lose
            ('line14_eps', 14, 'absent')]
    for geo, nc, sh in geos:
        prof = profiles(nc, ctx.tier, ctx.seed)
        for i0 in range(0, len(prof), 60):
            chunk = prof[i0:i0 + 60]
            nt = len(chunk)
            for wh in ('absent', 'identity', 'mixing'):
                spec = {'geometry': geo, 'n_channels': nc, 'n_templates': nt, 'n_spikes': nt + 2,
                        'shanks': sh, 'whitening': wh, 'profile': chunk, 'features': 'absent',
                        'tfeatures': 'absent', 'raw': False, 'nsw': 3, 'fill': ctx.seed,
                        'template_dtype': 'float64' if wh == 'identity' else 'float32'}
                cases.append({'kind': 'dense', 'spec': spec,
                              'n_closest': [12, 2, 3] if nc <= 6 else [12, 3]})
    return cases


def sparse_cases(ctx):
    nc = 5
    rows = []
    for r in itertools.permutations(range(nc), 3):
        rows.append((list(r), None))
    for r in itertools.permutations(range(nc), 2):
        for pos in range(3):
            rr = list(r)
            rr.insert(pos, -1)
            rows.append((rr, None))
    for c in range(nc):
        for pos in range(3):
            rr = [-1, -1]
            rr.insert(pos, c)
            rows.append((rr, None))
    for r in itertools.permutations(range(nc), 3):
        if (sum(r) + ctx.seed) % 3 == 0 or ctx.thorough:
            for zc in range(3):
                rows.append((list(r), zc))
    cases = []
    for i0 in range(0, len(rows), 45):
        chunk = rows[i0:i0 + 45]
        nt = len(chunk)
        prof = []
        for k, (r, zc) in enumerate(chunk):
            lv = list(np.roll(np.arange(1, nc + 1), k))
            prof.append([int(x) for x in lv])
        for wh in ('absent', 'mixing'):
            spec = {'templates': 'sparse', 'geometry': 'grid', 'n_channels': nc, 'n_templates': nt,
                    'n_spikes': nt + 2, 'whitening': wh, 'profile': prof, 'features': 'absent',
                    'tfeatures': 'absent', 'raw': False, 'nsw': 3, 'fill': ctx.seed,
                    'sparse_cols': [r for r, _ in chunk], 'sparse_zero': [z for _, z in chunk]}
            cases.append({'kind': 'sparse', 'spec': spec})
    # a column table as wide as the probe (3 stored columns on 3 channels): still sparse storage -
    # the table decides which channel a column is, -1 and signal-free columns are dropped
    nc = 3
    rows = [(list(r), None) for r in itertools.permutations(range(nc), 3)]
    for r in itertools.permutations(range(nc), 2):
        for pos in range(3):
            rr = list(r)
            rr.insert(pos, -1)
            rows.append((rr, None))
    for r in itertools.permutations(range(nc), 3):
        for zc in range(3):
            rows.append((list(r), zc))
    negs = [None] * len(rows)
    # stored columns that hold a purely negative deflection (no sample above zero): still signal
    for r in itertools.permutations(range(nc), 3):
        for ng in range(3):
            rows.append((list(r), None))
            negs.append(ng)
    prof = [[int(x) for x in np.roll(np.arange(1, nc + 1), k)] for k in range(len(rows))]
    for wh in ('absent', 'mixing'):
        spec = {'templates': 'sparse', 'geometry': 'grid', 'n_channels': nc, 'n_templates': len(rows),
                'n_spikes': len(rows) + 2, 'whitening': wh, 'profile': prof, 'features': 'absent',
                'tfeatures': 'absent', 'raw': False, 'nsw': 3, 'fill': ctx.seed,
                'sparse_cols': [r for r, _ in rows], 'sparse_zero': [z for _, z in rows],
                'sparse_neg': negs}
        cases.append({'kind': 'sparse', 'spec': spec})
    # tables with more stored columns than the 12-channel neighbourhood of dense storage: with sparse
    # storage the stored channels are the channels, however many
    nc = 16
    base = [(c * 5) % nc for c in range(nc)]           # a scattered order of the 16 channels
    rows = []
    for k in (14, 16, 13):
        for rot in range(3):
            r = [base[(j + rot * 5) % nc] for j in range(k)]
            rows.append((r + [-1] * (nc - k), None))
    prof = [[int(x) for x in np.roll(np.arange(1, nc + 1), k * 3)] for k in range(len(rows))]
    for wh in ('absent', 'mixing'):
        spec = {'templates': 'sparse', 'geometry': 'grid', 'n_channels': nc, 'n_templates': len(rows),
                'n_spikes': len(rows) + 2, 'whitening': wh, 'profile': prof, 'features': 'absent',
                'tfeatures': 'absent', 'raw': False, 'nsw': 3, 'fill': ctx.seed,
                'sparse_cols': [r for r, _ in rows], 'sparse_zero': [z for _, z in rows]}
        cases.append({'kind': 'sparse', 'spec': spec})
    return cases


def explore(ctx):
    ctx.rule = ('state = one loaded dataset whose templates enumerate amplitude profiles (every '
                'permutation of distinct levels, tie profiles) on one geometry and whitening; transition '
                '= one get_template / accessor call checked clause by clause (distinct channels, peak '
                'first, non-increasing amplitude, column alignment, amplitude alignment, exact channel '
                'set); non-trivial = the neighbourhood, shank or threshold restriction removes a '
                'channel, an explicit list is given, or sparse storage has a -1 / all-zero column')
    ctx.assumptions = ['no two channels at equal distance from a peak at the neighbourhood cut-off '
                       '(checked; such cases drop the exact-set clause)',
                       'amplitudes within 1e-4 of the threshold drop the exact-set clause',
                       'the amplitude vector is not compared for caller-ordered explicit lists',
                       'peak unique (ties allowed among non-peak channels)']
    ctx.run_cases(run_case, dense_cases(ctx), chunk=1, sweep='dense')
    ctx.run_cases(run_case, sparse_cases(ctx), chunk=1, sweep='sparse')
    ctx.bounds = {'geometries': ['line/4', 'grid/6', 'twoshank/6', 'col14/14'],
                  'n_closest': [12, 2, 3], 'thresholds': [None, 0, 0.5, 1],
                  'whitening': ['absent', 'identity', 'mixing'],
                  'sparse': '5 channels, 3 stored columns: every ordered row, 0-2 entries -1, 0-1 zero column'}


def replay(record):
    imports()
    return core.replay_case(run_case, record)
