# -*- coding: utf-8 -*-
"""C03 -- every route to a spike waveform yields the same zero-padded raw window.

space mode, sweeps:
  A  window arithmetic: direct extraction for every spike position x sample type x window
     length x channel selector (list / ndarray, with -1) on array and multi-file readers
  B  chunk / file / boundary placement: export_waveforms -> np.load for every composition
     into files x every chunk size (and compressed readers) x every sorted spike vector,
     then the exported file queried as a subset store in every order
  C  declared dtype vs bytes written for every sample dtype x unit factor type
  D  the TemplateModel routes (get_waveforms with and without a store,
     save_spikes_subset_waveforms) on generated datasets
"""
import itertools

import numpy as np

from .. import core
from ..gen import layouts
from ..util import arr_equal, compositions, describe

PROP = 'C03'

SELECTORS = [[0, 1], [2, 0], [1, -1], [-1, -1], [-1, 2]]
STYPES = ['int', 'int64', 'int32', 'uint64', 'uint32']


def imports():
    core.import_phylib('phylib.io.traces', 'phylib.io.model')


def window(A, s, nsw, ch):
    """Reference: rows [s - nsw//2, s - nsw//2 + nsw) of A on channels ch, zero outside / for -1."""
    n = A.shape[0]
    W = np.zeros((nsw, len(ch)), dtype=A.dtype)
    t0 = int(s) - nsw // 2
    for i in range(nsw):
        t = t0 + i
        if 0 <= t < n:
            for j, c in enumerate(ch):
                if c != -1:
                    W[i, j] = A[t, c]
    return W


def mk_sample(s, t):
    return {'int': int, 'int64': np.int64, 'int32': np.int32, 'uint64': np.uint64,
            'uint32': np.uint32}[t](s)


def clip_feature(s, nsw, n):
    t0 = s - nsw // 2
    t1 = t0 + nsw
    if t0 < 0 and t1 > n:
        return 'clip-both'
    if t0 < 0:
        return 'clip-top'
    if t1 > n:
        return 'clip-bottom'
    return 'inside'


# ---------------------------------------------------------------------------
# sweep A
# ---------------------------------------------------------------------------

def run_a(case, acc, order):
    from phylib.io.traces import extract_waveforms
    lay = case['layout']
    n = int(sum(lay['parts']))
    only = case.get('only_op')
    with core.Scratch() as d:
        reader, A = layouts.build_reader(d, lay)
        try:
            acc.state()
            opi = -1
            for nsw in list(range(1, 7)) + [2 * n + 1]:
                for s in range(n):
                    feat = clip_feature(s, nsw, n)
                    for st in STYPES:
                        for sel in SELECTORS:
                            for cont in ('ndarray', 'list'):
                                opi += 1
                                if only is not None and opi != only:
                                    continue
                                ch = np.array(sel, dtype=np.int64) if cont == 'ndarray' else list(sel)
                                exp = window(A, s, nsw, sel)[np.newaxis]
                                try:
                                    got = extract_waveforms(reader, [mk_sample(s, st)], ch,
                                                            n_samples_waveforms=nsw)
                                except Exception as e:
                                    got = e
                                minus = -1 in sel
                                nontrivial = feat != 'inside' or minus or st.startswith('u')
                                acc.step(nontrivial, 'A:%s' % feat)
                                ok = isinstance(got, np.ndarray) and arr_equal(got, exp)
                                if not ok:
                                    kind = type(got).__name__ if isinstance(got, BaseException) else (
                                        'shape' if got.shape != exp.shape else
                                        'dtype' if got.dtype != exp.dtype else 'value')
                                    sig = '%s/extract/%s/channels=%s%s/%s/%s' % (
                                        PROP, 'unsigned' if st.startswith('u') else 'signed', cont,
                                        ',with-1' if minus else '', feat, kind)
                                    acc.violation(sig, core.make_record(
                                        PROP, 'extract', sig, case=dict(case, only_op=opi),
                                        op={'sample': s, 'sample_type': st, 'nsw': nsw, 'channels': sel,
                                            'container': cont},
                                        expected=describe(exp), observed=describe(got)),
                                        order * 100000 + opi)
        finally:
            layouts.close_reader(reader)
    if order % 11 == 0:
        acc.sample({'sweep': 'A', 'layout': lay})


# ---------------------------------------------------------------------------
# sweep B
# ---------------------------------------------------------------------------

def spike_vectors(n, maxlen):
    for k in range(1, maxlen + 1):
        for v in itertools.combinations_with_replacement(range(n), k):
            yield list(v)


def run_b(case, acc, order):
    from phylib.io.traces import export_waveforms, get_spike_waveforms
    from phylib.utils import Bunch
    lay = case['layout']
    n = int(sum(lay['parts']))
    maxlen = case['maxlen']
    only = case.get('only_op')
    cache = bool(case.get('cache', False))
    pb = set(int(x) for x in np.cumsum(lay['parts']))
    with core.Scratch() as d:
        reader, A = layouts.build_reader(d, lay)
        try:
            acc.state()
            cb = set(int(x) for x in reader.chunk_bounds)
            opi = -1
            for vec in spike_vectors(n, maxlen):
                for st in ('int64', 'uint64'):
                    for nsw in (2, 3):
                        opi += 1
                        if only is not None and opi != only:
                            continue
                        k = len(vec)
                        rows = [SELECTORS[(opi + i) % len(SELECTORS)] for i in range(k)]
                        samples = np.array(vec, dtype=st)
                        chans = np.array(rows, dtype=np.int64)
                        factor = [1.0, 2.0, 0.5][opi % 3]
                        exp = np.stack([window(A, s, nsw, r) for s, r in zip(vec, rows)]) * factor
                        exp = exp.astype(np.float64)
                        path = d / ('w%d.npy' % opi)
                        on_boundary = any(s in cb or s in pb or s + 1 in cb for s in vec)
                        clipped = any(clip_feature(s, nsw, n) != 'inside' for s in vec)
                        nontrivial = on_boundary or clipped or st == 'uint64'
                        try:
                            export_waveforms(path, reader, samples, chans, n_samples_waveforms=nsw,
                                             cache=cache, sample2unit=factor)
                            got = np.load(path)
                        except Exception as e:
                            got = e
                        acc.step(nontrivial, 'B:export')
                        ok = isinstance(got, np.ndarray) and got.shape == exp.shape and \
                            np.array_equal(got.astype(np.float64), exp)
                        if not ok:
                            kind = type(got).__name__ if isinstance(got, BaseException) else (
                                'shape' if got.shape != exp.shape else 'value')
                            sig = '%s/export/%s/%s/%s' % (
                                PROP, lay['backend'].split('_')[0],
                                'unsigned' if st == 'uint64' else 'signed', kind)
                            acc.violation(sig, core.make_record(
                                PROP, 'export', sig, case=dict(case, only_op=opi),
                                op={'spikes': vec, 'sample_type': st, 'nsw': nsw, 'channels': rows,
                                    'factor': factor},
                                expected=describe(exp), observed=describe(got)), order * 100000 + opi)
                            try:
                                path.unlink()
                            except Exception:
                                pass
                            continue
                        # the exported file as a subset store, queried in every order
                        ids = np.array([3, 5, 9, 12][:k], dtype=np.int64)
                        store = Bunch(waveforms=np.load(path, mmap_mode='r'), spike_channels=chans,
                                      spike_ids=ids)
                        for q in range(1, k + 1):
                            for perm in itertools.permutations(range(k), q):
                                common = None
                                for i in perm:
                                    cset = [c for c in rows[i] if c != -1]
                                    common = cset if common is None else [c for c in common if c in cset]
                                common = list(dict.fromkeys(common or []))
                                queries = [chq for cq in range(1, len(common) + 1)
                                           for chq in itertools.permutations(common, cq)]
                                # a channel given as -1 is a column of zeros in a store lookup too
                                queries += [(c, -1) for c in common[:1]] + [(-1, c) for c in common[:1]]
                                for chq in queries:
                                    if True:
                                        expq = np.stack([
                                            window(A, vec[i], nsw, list(chq)) for i in perm]
                                        ).astype(np.float64) * factor
                                        try:
                                            gq = get_spike_waveforms(
                                                ids[list(perm)], np.array(chq), spike_waveforms=store,
                                                n_samples_waveforms=nsw)
                                        except Exception as e:
                                            gq = e
                                        acc.step(len(perm) >= 2 or len(chq) >= 2, 'B:store')
                                        okq = isinstance(gq, np.ndarray) and gq.shape == expq.shape \
                                            and np.array_equal(np.asarray(gq, dtype=np.float64), expq)
                                        if not okq:
                                            kind = type(gq).__name__ if isinstance(gq, BaseException) \
                                                else ('shape' if gq.shape != expq.shape else 'value')
                                            sig = '%s/store/%s/%s' % (
                                                PROP, 'reordered' if list(perm) != sorted(perm) or
                                                list(chq) != sorted(chq) else 'in-order', kind)
                                            acc.violation(sig, core.make_record(
                                                PROP, 'store', sig, case=dict(case, only_op=opi),
                                                op={'spikes': vec, 'query_spikes': list(perm),
                                                    'query_channels': list(chq), 'stored_channels': rows,
                                                    'nsw': nsw},
                                                expected=describe(expq), observed=describe(gq)),
                                                order * 100000 + opi)
                        del store
                        try:
                            path.unlink()
                        except Exception:
                            pass
        finally:
            layouts.close_reader(reader)
    if order % 41 == 0:
        acc.sample({'sweep': 'B', 'layout': lay, 'spike_vectors': 'all sorted vectors of length <= %d'
                    % maxlen})


# ---------------------------------------------------------------------------
# sweep C
# ---------------------------------------------------------------------------

FACTORS = {'int1': 1, 'int2': 2, 'float0.5': 0.5, 'float1.0': 1.0, 'npfloat32_2': np.float32(2),
           'npfloat64_3': np.float64(3)}


def run_c(case, acc, order):
    from phylib.io.traces import export_waveforms
    lay = case['layout']
    with core.Scratch() as d:
        reader, A = layouts.build_reader(d, lay)
        n = A.shape[0]
        try:
            acc.state()
            for fname, factor in FACTORS.items():
                for vec in ([0, n - 1], [1, 2, 2]):
                    nsw = 3
                    rows = [SELECTORS[i % 4] for i in range(len(vec))]
                    exp = np.stack([window(A, s, nsw, r) for s, r in zip(vec, rows)]).astype(
                        np.float64) * float(factor)
                    path = d / 'c.npy'
                    try:
                        export_waveforms(path, reader, np.array(vec), np.array(rows),
                                         n_samples_waveforms=nsw, sample2unit=factor)
                        got = np.load(path)
                    except Exception as e:
                        got = e
                    acc.step(True, 'C:%s' % fname)
                    ok = isinstance(got, np.ndarray) and got.shape == exp.shape and \
                        np.array_equal(got.astype(np.float64), exp)
                    if not ok:
                        kind = type(got).__name__ if isinstance(got, BaseException) else (
                            'shape' if got.shape != exp.shape else 'value')
                        fk = 'int' if isinstance(factor, int) else (
                            'pyfloat' if type(factor) is float else type(factor).__name__)
                        sig = '%s/export-dtype/%s*%s/%s' % (PROP, lay['dtype'], fk, kind)
                        acc.violation(sig, core.make_record(
                            PROP, 'export-dtype', sig, case=case,
                            op={'factor': fname, 'spikes': vec},
                            expected=describe(exp), observed=describe(got)), order)
        finally:
            layouts.close_reader(reader)
    acc.sample({'sweep': 'C', 'layout': lay, 'factors': list(FACTORS)}) if order == 0 else None


def run_e(case, acc, order):
    """Spike samples held in a narrow integer type on a recording longer than that type's range (file and
    chunk bounds beyond 255 / 32767): direct extraction and chunk-by-chunk export."""
    from phylib.io.traces import export_waveforms, extract_waveforms
    lay = case['layout']
    n = int(sum(lay['parts']))
    with core.Scratch() as d:
        reader, A = layouts.build_reader(d, lay)
        try:
            acc.state()
            for st, vec in (('uint8', [3, 100, 255]), ('int16', [0, 149, 150, n - 1]),
                            ('uint16', [1, 255, 256, n - 2]), ('int8', [0, 127])):
                samples = np.array(vec, dtype=st)
                rows = [SELECTORS[i % len(SELECTORS)] for i in range(len(vec))]
                chans = np.array(rows, dtype=np.int64)
                nsw = 4
                exp = np.stack([window(A, s, nsw, r) for s, r in zip(vec, rows)]).astype(np.float64)
                for route in ('export', 'extract'):
                    try:
                        if route == 'export':
                            path = d / ('e_%s.npy' % st)
                            export_waveforms(path, reader, samples, chans, n_samples_waveforms=nsw)
                            got = np.load(path)
                        else:
                            got = np.stack([extract_waveforms(reader, samples[i:i + 1], chans[i],
                                                              n_samples_waveforms=nsw)[0]
                                            for i in range(len(vec))])
                    except Exception as e:
                        got = e
                    acc.step(True, 'E:%s' % route)
                    ok = isinstance(got, np.ndarray) and got.shape == exp.shape and \
                        np.array_equal(got.astype(np.float64), exp)
                    if not ok:
                        kind = type(got).__name__ if isinstance(got, BaseException) else (
                            'shape' if got.shape != exp.shape else 'value')
                        sig = '%s/%s/narrow-sample-type/%s' % (PROP, route, kind)
                        acc.violation(sig, core.make_record(
                            PROP, route, sig, case=case, op={'spikes': vec, 'sample_type': st, 'nsw': nsw},
                            expected=describe(exp), observed=describe(got)), order)
        finally:
            layouts.close_reader(reader)


RUN = {'A': run_a, 'B': run_b, 'C': run_c, 'E': run_e}


def run_case(case, acc, order):
    RUN[case['sweep']](case, acc, order)


def self_test():
    A = np.arange(12).reshape(4, 3)
    W = window(A, 0, 3, [1, -1])
    assert W.tolist() == [[0, 0], [1, 0], [4, 0]]
    W = window(A, 3, 4, [0])
    assert W.tolist() == [[3], [6], [9], [0]]
    W = window(A, 1, 9, [2])       # longer than the recording on both sides
    assert W[:, 0].tolist() == [0, 0, 0, 2, 5, 8, 11, 0, 0]


def explore(ctx):
    self_test()
    thorough = ctx.thorough
    ctx.rule = ('state = one recording layout built on disk (and, sweep B, its chunk grid); transition '
                '= one extraction / export+load / store query compared with the zero-padded window of '
                'the ground-truth array; non-trivial = window clipped at an end, spike on a chunk or '
                'file boundary, -1 channel, unsigned sample type, reordered store query')
    ctx.assumptions = ['store queries are restricted to channels stored for every queried spike',
                       'np.load is the independent reader of exported files']
    # A
    casesA = []
    i = 0
    NA = 8 if thorough else 7
    for n in range(1, NA + 1):
        for dt in ('int16', 'float32', 'float64'):
            lays = [{'backend': 'array', 'parts': [n]}]
            if n >= 2:
                lays.append({'backend': 'flat', 'parts': [n // 2, n - n // 2]})
            if thorough and n >= 3:
                lays.append({'backend': 'cbin_reader', 'parts': [n], 'chunk': 2, 'threads': 2})
            for l in lays:
                l.update(dtype=dt, n_channels=3, offset=0, sample_rate=[2 / 600.0, 1000.0][i % 2],
                         fill=ctx.seed + i)
                casesA.append({'sweep': 'A', 'layout': l})
                i += 1
    for dt in ('float32', 'float64'):
        for l in ({'backend': 'array', 'parts': [5]}, {'backend': 'flat', 'parts': [2, 3]}):
            l = dict(l, dtype=dt, n_channels=3, offset=0, sample_rate=1000.0, fill=ctx.seed + i,
                     nonfinite=True)
            casesA.append({'sweep': 'A', 'layout': l})
            i += 1
    ctx.run_cases(run_case, casesA, chunk=1, sweep='A-window-arithmetic')
    # B
    casesB = []
    ns = (5, 6, 7)
    maxlen = 4 if thorough else 3
    for n in ns:
        for comp in compositions(n):
            if len(comp) > 3:
                continue
            for c in range(1, n + 2):
                casesB.append({'sweep': 'B', 'maxlen': maxlen, 'layout': {
                    'backend': 'flat', 'dtype': ['int16', 'float32', 'float64'][i % 3],
                    'n_channels': 3, 'offset': [0, 7][i % 2], 'parts': list(comp),
                    'sample_rate': c / 600.0, 'fill': ctx.seed + i}})
                i += 1
        for chunk in sorted(set([1, 2, 3, n])):
            for threads in (1, 2, 3):
                for cache in (False, True):
                    casesB.append({'sweep': 'B', 'maxlen': maxlen, 'cache': cache, 'layout': {
                        'backend': 'cbin_reader', 'dtype': ['int16', 'float32'][i % 2],
                        'n_channels': 3, 'parts': [n], 'sample_rate': 1000.0, 'chunk': chunk,
                        'threads': threads, 'fill': ctx.seed + i}})
                    i += 1
    ctx.run_cases(run_case, casesB, chunk=1, sweep='B-chunk-placement')
    # C
    casesC = []
    for dt in ('int16', 'float32', 'float64'):
        for l in ({'backend': 'array', 'parts': [6]}, {'backend': 'flat', 'parts': [2, 4]},
                  {'backend': 'flat', 'parts': [3, 3], 'big': True}):
            l = dict(l, dtype=dt, n_channels=3, offset=0, sample_rate=3 / 600.0, fill=ctx.seed)
            casesC.append({'sweep': 'C', 'layout': l})
    ctx.run_cases(run_case, casesC, chunk=1, sweep='C-declared-dtype')
    casesE = [{'sweep': 'E', 'layout': dict(l, dtype='int16', n_channels=3, offset=0, fill=ctx.seed)}
              for l in ({'backend': 'flat', 'parts': [150, 150], 'sample_rate': 100 / 600.0},
                        {'backend': 'array', 'parts': [300], 'sample_rate': 128 / 600.0},
                        {'backend': 'flat', 'parts': [100, 100, 100], 'sample_rate': 1000.0})]
    ctx.run_cases(run_case, casesE, chunk=1, sweep='E-narrow-sample-types')
    ctx.bounds = {'A': {'n<=': NA, 'nsw': '1..6 and 2n+1', 'sample_types': STYPES,
                        'selectors': SELECTORS},
                  'B': {'n': list(ns), 'files<=': 3, 'chunk': '1..n+1', 'spike_vector_len<=': maxlen,
                        'cbin': 'chunk{1,2,3,n} x threads{1,2,3} x cache'},
                  'C': {'dtypes': ['int16', 'float32', 'float64'], 'factors': list(FACTORS)}}
    from . import c03_model
    c03_model.explore(ctx)


def replay(record):
    imports()
    if record.get('subcheck', '') == 'model-routes' or 'spec' in (record.get('case') or {}):
        from . import c03_model
        return c03_model.replay(record)
    return core.replay_case(run_case, record)
