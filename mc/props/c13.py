# -*- coding: utf-8 -*-
"""C13 -- ALF export writes consistent object tables that load back to the same spikes.

space mode, deviation-bounded over the source-dataset options (raw data, features, curation,
probe table, KSLabel, temp_wh.dat, (n,1) vectors, unused top template, whitening) x label x
unit factor: each source is generated, converted with the real EphysAlfCreator, the output
directory listed and loaded back, the source directory hashed before/after.
"""
import itertools

import numpy as np

from .. import core
from ..util import describe
from . import alf_common as ac

PROP = 'C13'
imports = ac.imports

AXES = [
    ('raw', [True, False]),
    ('raw_format', ['dat', 'cbin']),     # compressed recording of 9 chunks: more than one decompression batch
    ('features', ['sparse', 'absent', 'noind', 'sparse_rows']),
    ('curation', ['none', 'merge_split', 'reassign', 'swap', 'exchange']),
    ('probes', ['absent', 'zeros']),
    ('kslabel', [False, True]),
    ('temp_wh', [False, True]),
    ('vec2d', [False, True]),
    ('unused_top', [False, True]),
    ('whitening', ['mixing', 'absent']),
    ('channel_map', ['identity', 'perm', 'sub_high']),
    ('twice', [False, True]),            # the same creator converts twice
    ('wide', [False, True]),             # 14 channels: more than the 12-channel neighbourhood
    ('label', ['', 'probe00', 'a']),      # 'a': a label that is a substring of the file names
    ('factor', [1, 2.5]),
    ('symlinked', [False, True]),
    ('nsw', [4, 5]),                     # even / odd number of template samples
    ('units', ['um/25000', 'mm/2500.5']),  # geometry in mm (sites < 1 unit apart) and a fractional sampling rate
    ('late_spike', [False, True]),       # the last spike lies after the end of the raw data        # per-spike vectors of the source are links to the sorter's files
]

ST_FULL = [0, 1, 2, 3, 1, 0, 3, 2]
ST_UNUSED_TOP = [0, 1, 2, 0, 2, 1, 1, 0]


def make_spec(cfg, fill):
    st = ST_UNUSED_TOP if cfg['unused_top'] else ST_FULL
    mx = max(st)
    if cfg['curation'] == 'none':
        sc = 'same'
    elif cfg['curation'] == 'merge_split':
        sc = [mx + 1 if x in (0, 1) else x for x in st]
        last = max(st)
        seen = 0
        for i, x in enumerate(st):
            if x == last:
                sc[i] = mx + 2 if seen < 1 else mx + 3
                seen += 1
    elif cfg['curation'] == 'exchange':
        # two clusters exchange their ids: as many clusters as templates, each id's content changed
        sc = [{1: 2, 2: 1}.get(x, x) for x in st]
    elif cfg['curation'] == 'swap':
        # one spike moved between two existing ids: the set of ids is the set of used templates
        sc = list(st)
        sc[[i for i, x in enumerate(st) if x == 0][-1]] = 1
    else:   # one spike moved to a new id, no id emptied
        sc = list(st)
        sc[[i for i, x in enumerate(st) if x == 0][-1]] = mx + 1
    spec = {'n_spikes': 8, 'n_templates': 4, 'n_channels': 5, 'geometry': 'grid', 'nsw': 4,
            'spike_templates': st, 'spike_clusters': sc, 'raw': cfg['raw'],
            'features': cfg['features'], 'tfeatures': 'absent', 'probes': cfg['probes'],
            'vec2d': cfg['vec2d'], 'whitening': cfg['whitening'], 'fill': fill, 'n_raw': 60,
            'channel_map': cfg.get('channel_map', 'identity'),
            # 30 / 25000 * 25000 truncates to 29: samples recovered from seconds must be rounded
            'sample_rate': 25000.0,
            'tsv': ({'cluster_KSLabel.tsv': {'field': 'KSLabel', 'values': {0: 'good', 1: 'mua'}}}
                    if cfg['kslabel'] else {})}
    if cfg.get('wide'):
        spec.update(n_channels=14, geometry='col14')
    spec['nsw'] = cfg.get('nsw', 4)
    spec['raw_format'] = cfg.get('raw_format', 'dat')
    if cfg.get('units', 'um/25000') != 'um/25000':
        spec['geometry'] += '_mm'
        spec['sample_rate'] = 2500.5
    if cfg.get('late_spike'):
        spec['spike_samples'] = [0, 9, 16, 23, 30, 37, 44, spec['n_raw'] + 5]    # and the first at sample 0
    return spec


def configs(maxdev):
    default = {a: v[0] for a, v in AXES}
    out = []
    for k in range(0, maxdev + 1):
        for axes in itertools.combinations(range(len(AXES)), k):
            for combo in itertools.product(*[AXES[i][1][1:] for i in axes]):
                cfg = dict(default)
                for i, v in zip(axes, combo):
                    cfg[AXES[i][0]] = v
                out.append(cfg)
    return out


OBJ_PREFIXES = ('spikes.', 'clusters.', 'templates.', 'channels.')


def check(cfg, res):
    bad = []
    if res['exception'] is not None:
        bad.append(('convert', type(res['exception']).__name__, 'a converted dataset', res['traceback']))
    else:
        tr = res['truth']
        s = tr['spec']
        ns, nt, nc = s['n_spikes'], s['n_templates'], s['n_channels']
        sc = tr['spike_clusters'].astype(np.int64)
        st = tr['spike_templates'].astype(np.int64)
        curated = not np.array_equal(sc, st)
        ncl = int(sc.max()) + 1 if curated else nt
        dims = {'spikes': ns, 'clusters': ncl, 'templates': nt, 'channels': nc}
        out = res['out']
        label = cfg['label']
        for fn, val in out.items():
            if isinstance(val, BaseException) and not fn.startswith(OBJ_PREFIXES):
                # every array written by the conversion (incl. the spike-waveform subset) must load
                bad.append(('file', 'unreadable:' + fn.split('.')[0], 'np.load works', fn + ': ' + repr(val)))
            if not fn.startswith(OBJ_PREFIXES):
                continue
            parts = fn.split('.')
            obj = parts[0]
            # naming: obj.attr[.label].ext
            if label:
                if len(parts) < 4 or parts[-2] != label:
                    bad.append(('naming', 'label-missing-or-misplaced', 'obj.attr.%s.ext' % label, fn))
            else:
                if len(parts) != 3:
                    bad.append(('naming', 'unexpected-parts', 'obj.attr.ext', fn))
            if isinstance(val, BaseException):
                bad.append(('file', 'unreadable:' + obj, 'np.load works', fn + ': ' + repr(val)))
                continue
            n0 = (len([l for l in val if l != '']) - 1) if isinstance(val, list) else (
                val.shape[0] if getattr(val, 'ndim', 0) >= 1 else None)
            if n0 != dims[obj]:
                bad.append(('first-dimension', '%s/%s' % (obj, parts[1]), dims[obj], {fn: n0}))

        def get(name):
            key = name if not label else name.replace('.npy', '.%s.npy' % label).replace(
                '.csv', '.%s.csv' % label)
            return out.get(key)

        required = ['spikes.times.npy', 'spikes.samples.npy', 'spikes.clusters.npy',
                    'spikes.templates.npy', 'spikes.amps.npy', 'spikes.depths.npy',
                    'clusters.channels.npy', 'clusters.amps.npy', 'clusters.depths.npy',
                    'clusters.peakToTrough.npy', 'clusters.waveforms.npy',
                    'clusters.waveformsChannels.npy', 'clusters.uuids.csv',
                    'templates.waveforms.npy', 'templates.waveformsChannels.npy', 'templates.amps.npy',
                    'channels.rawInd.npy', 'channels.localCoordinates.npy']
        for r in required:
            if get(r) is None:
                bad.append(('file', 'missing', r, sorted(out)[:40]))
        sr = float(s['sample_rate'])
        samples = tr['spike_samples'].astype(np.int64)
        t = get('spikes.times.npy')
        if isinstance(t, np.ndarray) and not np.allclose(t.squeeze(), samples / sr, rtol=0, atol=1e-12):
            bad.append(('spikes.times', 'value', describe(samples / sr), describe(t)))
        sm = get('spikes.samples.npy')
        if isinstance(sm, np.ndarray) and not np.array_equal(sm.squeeze().astype(np.int64), samples):
            bad.append(('spikes.samples', 'value', describe(samples), describe(sm)))
        uu = get('clusters.uuids.csv')
        if isinstance(uu, list):
            ids = [l for l in uu[1:] if l != '']
            if len(set(ids)) != len(ids) or len(ids) != ncl or uu[0] != 'uuids':
                bad.append(('clusters.uuids', 'not-unique-one-per-cluster', ncl, len(set(ids))))
        # loading back
        for name in ('returned', 'reloaded'):
            v = res[name]
            if v is None or isinstance(v, BaseException):
                bad.append((name + '-model', 'absent', 'a model of the output', repr(v)))
                continue
            src = res['src_view']
            for key in ('spike_times', 'spike_samples', 'spike_clusters', 'spike_templates',
                        'channel_positions', 'channel_mapping'):
                a, b = np.asarray(v[key]), np.asarray(src[key])
                ok = a.shape == b.shape and (np.allclose(a.astype(np.float64), b.astype(np.float64),
                                                         rtol=0, atol=1e-12))
                if not ok:
                    bad.append((name + '-model', key, describe(b), describe(a)))
            # ... and the positions are those of the source's file (not only of the source's model)
            fpos = np.asarray(res['src_files'].get('channel_positions.npy'), dtype=np.float64)
            a = np.asarray(v['channel_positions'], dtype=np.float64)
            if fpos.ndim == 2 and len(set(map(tuple, fpos.tolist()))) == len(fpos) and not (
                    a.shape == fpos.shape and np.allclose(a, fpos, rtol=0, atol=1e-12)):
                bad.append((name + '-model', 'channel_positions-vs-source-file', describe(fpos), describe(a)))
    # source directory
    b, a = res['src_before'], res['src_after']
    subset = ('_phy_spikes_subset.waveforms.npy', '_phy_spikes_subset.spikes.npy',
              '_phy_spikes_subset.channels.npy')
    changed = sorted(f for f in b if f in a and a[f] != b[f] and f not in subset)
    removed = sorted(f for f in b if f not in a and f != 'temp_wh.dat')
    new = sorted(f for f in a if f not in b and f not in subset)
    if changed or removed or new:
        bad.append(('source-directory', 'modified', 'byte-identical apart from temp_wh.dat and the '
                    'subset files', {'changed': changed, 'removed': removed, 'new': new}))
    if cfg['temp_wh'] and 'temp_wh.dat' in a and res['exception'] is None:
        bad.append(('source-directory', 'temp_wh-not-removed', 'deleted', 'still there'))
    return bad


def run_case(case, acc, order):
    cfg = case['cfg']
    spec = make_spec(cfg, case['fill'])
    extra = [('temp_wh.dat', b'\x00' * 64)] if cfg['temp_wh'] else []
    res = ac.run_convert(spec=spec, label=cfg['label'], factor=cfg['factor'], extra_files=extra,
                         twice=cfg.get('twice', False), symlinked=cfg.get('symlinked', False),
                         out_variant=sum(1 for a, v in AXES if cfg[a] != v[0]) + len(cfg['label']))
    acc.state()
    ndev = sum(1 for a, v in AXES if cfg[a] != v[0])
    acc.step(ndev >= 1, 'convert:%d-deviations' % ndev)
    bad = check(cfg, res)
    # the same-directory guard (once per configuration family: default + single deviations)
    if ndev <= 1:
        for how in (True, 'dotdot', 'symlink', 'relative'):
            res2 = ac.run_convert(spec=spec, label=cfg['label'], factor=cfg['factor'], same_dir=how)
            acc.step(True, 'convert:same-directory')
            tag = 'same-path' if how is True else 'other-spelling(%s)' % how
            if not isinstance(res2['exception'], IOError):
                bad.append(('same-directory', 'not-refused/' + tag, 'IOError', repr(res2['exception'])))
            elif res2['src_before'] != res2['src_after']:
                bad.append(('same-directory', 'wrote-something/' + tag, 'nothing written',
                            sorted(set(res2['src_after']) ^ set(res2['src_before']))))
    for attr, kind, exp, got in bad:
        dev = '+'.join('%s=%s' % (a, cfg[a]) for a, v in AXES if cfg[a] != v[0]) or 'default'
        feat = 'curated-no-empty-id' if cfg['curation'] == 'reassign' else (
            'curated' if cfg['curation'] != 'none' else (
                'unused-top' if cfg['unused_top'] else 'plain'))
        sig = '%s/alf/%s/%s/%s' % (PROP, attr, kind, feat)
        acc.violation(sig, core.make_record(PROP, 'alf', sig, case=case, op={'deviations': dev},
                                            expected=exp, observed=got), ndev * 10 ** 6 + order)
    if order % 61 == 0:
        acc.sample({'config': cfg})


def explore(ctx):
    # (the full product of the 18 axes is 2.9 million conversions, about 4 h: the thorough tier stops at 6)
    K = 6 if ctx.thorough else 3
    cases = [{'cfg': c, 'fill': ctx.seed} for c in configs(K)]
    ctx.run_cases(run_case, cases, sweep='deviation-bounded')
    ctx.bounds = {'axes': {a: [str(x) for x in v] for a, v in AXES}, 'max_deviations': K}
    ctx.notes['deviations_completed'] = K
    ctx.rule = ('state = one generated dense source dataset (default + <= k deviating options) x label '
                'x unit factor; transition = EphysAlfCreator.convert on it: file set, first dimensions, '
                'naming, times/samples, uuids, the returned and a freshly loaded model of the output, '
                'the same-directory guard and the source hashes; non-trivial = >= 1 deviation')
    ctx.assumptions = ['uuid4 is not owned: only uniqueness and count are observed',
                       'ids below 65536', 'with <= 8 spikes the subset selector never draws']


def replay(record):
    imports()
    return core.replay_case(run_case, record)
