# -*- coding: utf-8 -*-
"""C20 -- no download is reported successful with a file failing its published checksum.

env mode: the real download_file runs against an in-process HTTP mock whose every answer is a
choice point; all schedules of server answers are enumerated for every prior file state, in
constant-checksum mode (the stated quantifier) and per-request mode. The TLA+ model
tla/Download.tla is checked by TLC and every terminal path of its state graph is replayed
against the implementation (and every explored schedule must be a model path).
"""
import hashlib
import os
import re

from .. import core
from .c19 import run_tlc, parse_dump

PROP = 'C20'

URL = 'http://mock.invalid/data/file.bin'
GOOD = BAD = OTHER = MD5_GOOD = None
MD5_WRONG = hashlib.md5(b'something else entirely').hexdigest()
SIZES = {'small': 2700, 'large': 2 ** 20 + 4096,    # large: more than one read block of the hasher
         'empty': 0}                                  # the published file is empty (and so is a valid copy)


PATHLEN = {'n': None}                  # total length of the target path (None: as it comes)
ENTRY = {'kind': 'download_file'}      # or 'download_test_file' (forced): the same call behind a wrapper


def set_bodies(size='small'):
    """The served bodies: a few kB, or just above 1 MiB (files are hashed in blocks)."""
    global GOOD, BAD, OTHER, MD5_GOOD
    n = SIZES[size]
    unit = bytes(bytearray((i * 7 + 3) % 251 for i in range(2700)))
    GOOD = (unit * (n // 2700 + 1))[:n]
    # the corrupted body differs from the good one only near its end
    BAD = GOOD[:-7] + bytes(bytearray((b + 1) % 256 for b in GOOD[-7:]))
    OTHER = GOOD[:n - 1200] if n > 3000 else bytes(bytearray((i * 13 + 1) % 239 for i in range(1500)))
    if n == 0:
        GOOD, BAD, OTHER = b'', b'not the empty file', b'some other prior content'
    MD5_GOOD = hashlib.md5(GOOD).hexdigest()


set_bodies('small')

DATA = ['good', 'corrupt', 'err']
SUMS = ['correct', 'wrong', 'missing']
PRIOR = ['absent', 'good', 'corrupt']
HORIZON = 4      # data requests per call that are choice points (the code makes at most 2)


def imports():
    core.import_phylib('phylib.io.datasets')


def run_download(prior, sum_mode, choices, data_script=None, fresh_emitter=True):
    """One execution of the real download_file under scripted server answers.

    sum_mode: 'correct' | 'wrong' | 'missing' (constant) or 'per-request'.
    data_script: if given, the data-URL answers are taken from it (model-path replay) instead
    of the choice oracle."""
    import requests
    import responses
    import phylib.utils.event as evm
    from phylib.io.datasets import download_file
    if fresh_emitter:
        evm.reset()      # (the many-downloads sweep keeps the process's global emitter as it is)
    evm.set_silent(False)
    log = {'data': [], 'sum': [], 'head': 0}
    script = list(data_script) if data_script is not None else None

    def data_cb(request):
        if script is not None:
            a = script.pop(0) if script else 'unscripted'
        elif len(log['data']) >= HORIZON:
            a = 'good'          # horizon: beyond it the server simply works (bounds a retry loop)
        else:
            a = DATA[choices.choose(3, 'data')]
        log['data'].append(a)
        if a == 'good':
            return (200, {}, GOOD)
        if a == 'corrupt':
            return (200, {}, BAD)
        return (404, {}, b'not found')

    def sum_cb(request):
        if sum_mode == 'per-request' and len(log['sum']) < HORIZON + 2:
            s = SUMS[choices.choose(3, 'sum')]
        elif sum_mode == 'per-request':
            s = 'correct'
        else:
            s = sum_mode
        log['sum'].append(s)
        if s == 'correct':
            return (200, {}, MD5_GOOD + '  file.bin\n')
        if s == 'wrong':
            return (200, {}, MD5_WRONG + '  file.bin\n')
        return (404, {}, 'not found')

    def head_cb(request):
        log['head'] += 1
        if len(GOOD) > 10000:
            return (404, {}, b'HEAD is not served')     # large-body sweep: the size query fails
        return (200, {'content-length': str(len(GOOD))}, b'')

    import io
    import contextlib
    url = URL
    if ENTRY['kind'] == 'download_test_file':
        import phylib.io.datasets as dsm
        url = dsm._BASE_URL + 'file.bin'
    with core.Scratch() as d:
        path = d / 'out' / 'file.bin'
        if ENTRY['kind'] == 'download_test_file':
            path = d / 'cfg' / 'test_data' / 'file.bin'
        elif PATHLEN['n']:
            # a target whose full path has a given length (the progress line names the path)
            pad = PATHLEN['n'] - len(str(d / 'out')) - len('/file.bin') - 1
            if pad >= 1:
                path = d / 'out' / ('p' * pad) / 'file.bin'
        if not (ENTRY['kind'] == 'download_test_file' and prior == 'absent'):
            # (the wrapper, with no prior file, starts from a configuration directory that does not exist yet)
            path.parent.mkdir(parents=True)
        if prior == 'good':
            path.write_bytes(GOOD)
        elif prior == 'corrupt':
            path.write_bytes(OTHER)
        out = {'outcome': None, 'exc': None}
        with responses.RequestsMock(assert_all_requests_are_fired=False) as rsps, \
                contextlib.redirect_stdout(io.StringIO()):
            rsps.add_callback(responses.GET, url, callback=data_cb)
            rsps.add_callback(responses.GET, url + '.md5', callback=sum_cb)
            rsps.add_callback(responses.HEAD, url, callback=head_cb)
            try:
                with core.time_limit(5):
                    if ENTRY['kind'] == 'download_test_file':
                        from phylib.io.datasets import download_test_file
                        download_test_file('file.bin', config_dir=d / 'cfg', force=True)
                    else:
                        # the target given as a Path, or (large-body sweep) as a string
                        download_file(URL, str(path) if len(GOOD) > 10000 else path)
                out['outcome'] = 'returned'
            except core.CaseTimeout:
                out['outcome'] = 'raised_other:no-termination'
                out['exc'] = 'download_file did not return within 5 s (%d data requests so far)' % \
                    len(log['data'])
            except requests.exceptions.HTTPError as e:
                out['outcome'] = 'raised_http'
                out['exc'] = repr(e)[:120]
            except RuntimeError as e:
                out['outcome'] = 'raised_mismatch'
                out['exc'] = repr(e)[:120]
            except Exception as e:
                out['outcome'] = 'raised_other:%s' % type(e).__name__
                out['exc'] = repr(e)[:200]
        out['file_md5'] = hashlib.md5(path.read_bytes()).hexdigest() if path.exists() else None
    if fresh_emitter:
        evm.reset()
    out['data'] = log['data']
    out['sum'] = log['sum']
    out['gets'] = len(log['data'])
    out['unscripted'] = 'unscripted' in log['data']
    return out


def run_many(case, acc, order):
    """N good downloads one after the other in one process, the global event system left alone (as in a
    session that fetches many files): every one of them returns and leaves the published file."""
    import phylib.utils.event as evm
    set_bodies('small')
    ENTRY['kind'] = 'download_file'
    PATHLEN['n'] = None
    evm.reset()
    acc.state()
    try:
        for i in range(case['n']):
            out = run_download(['absent', 'corrupt'][i % 2], 'correct', core.Choices([]), fresh_emitter=False)
            acc.step(i > 0, 'many:download')
            ok = out['outcome'] == 'returned' and out['file_md5'] == hashlib.md5(GOOD).hexdigest()
            if not ok:
                sig = '%s/direct/constant/download-%s-in-one-process' % (PROP, 'beyond-100th' if i >= 100 else 'early')
                acc.violation(sig, core.make_record(
                    PROP, 'many', sig, case=case, op={'download_number': i + 1},
                    expected='returned, file = published body', observed={k: out.get(k) for k in (
                        'outcome', 'exc', 'gets', 'file_md5')}), order)
                break
    finally:
        evm.reset()


class StopExploration(Exception):
    pass


# the executions this process has run so far (configuration + schedule): a violation that depends on
# state the code keeps between calls is replayed after them
_EXECUTED = []


def direct_oracle(prior, sum_mode, out):
    """The clauses of the statement on one execution; returns a list of (clause, expected, got)."""
    bad = []
    data, sums = out['data'], out['sum']
    returned = out['outcome'] == 'returned'
    last_sum = sums[-1] if sums else None
    published = {'correct': MD5_GOOD, 'wrong': MD5_WRONG}.get(last_sum)
    # (1) no success with a bad checksum
    if returned and published is not None and out['file_md5'] != published:
        bad.append(('bad-success', 'file md5 == published %s' % published[:8],
                    'returned with file md5 %s' % (out['file_md5'] or 'no file')[:8]))
    # (2) a valid existing file is not downloaded again
    if prior == 'good' and sums and sums[0] == 'correct' and (out['gets'] != 0 or not returned):
        bad.append(('redownload-of-valid-file', '0 data GETs, returns',
                    '%d data GETs, %s' % (out['gets'], out['outcome'])))
    # (3) an HTTP error on the data URL raises
    if 'err' in data and returned:
        bad.append(('http-error-swallowed', 'an exception', 'returned'))
    # (4) exactly one retry after a mismatch; persistent mismatch raises
    if out['gets'] > 2:
        bad.append(('more-than-one-retry', '<= 2 data GETs', '%d data GETs' % out['gets']))
    if 'err' not in data and out['gets'] >= 1:
        # verification answers after each completed download, in order
        skip = 1 if prior != 'absent' else 0      # the pre-check of an existing file
        ver = sums[skip:]
        body_ok = [a == 'good' for a in data]

        def verdict(i):
            if i >= len(ver) or ver[i] == 'missing':
                return None
            return ver[i] == 'correct' and body_ok[i]
        first = verdict(0)
        if first is False:
            if out['gets'] != 2:
                bad.append(('no-retry-after-mismatch', '2 data GETs', '%d data GETs, %s' % (
                    out['gets'], out['outcome'])))
            elif verdict(1) is False and out['outcome'] != 'raised_mismatch':
                bad.append(('persistent-mismatch-not-raised', 'RuntimeError', out['outcome']))
        elif out['gets'] == 2:
            bad.append(('retry-without-mismatch', '1 data GET', '2 data GETs'))
    if out['outcome'].startswith('raised_other'):
        bad.append(('unexpected-exception', 'HTTPError or RuntimeError', out['exc']))
    return bad


def scenario_key(prior, sum_mode, out):
    return (prior, sum_mode, tuple(out['data']), out['outcome'], out['gets'])


def run_direct(case, acc, order):
    prior, mode = case['prior'], case['sum']
    set_bodies(case.get('body', 'small'))
    ENTRY['kind'] = case.get('entry', 'download_file')
    PATHLEN['n'] = case.get('pathlen')
    first = case.get('schedule')

    attempted = []

    def run(ch):
        attempted.append(list(ch.prefix))
        out = run_download(prior, mode, ch)
        _EXECUTED.append({'prior': prior, 'sum': mode, 'body': case.get('body', 'small'),
                          'entry': case.get('entry', 'download_file'), 'pathlen': case.get('pathlen'),
                          'schedule': list(ch.schedule)})
        del _EXECUTED[:-80]
        return out

    seen = []

    def on_exec(ch, out):
        if 'no-termination' in out['outcome']:
            acc.extra['non_terminating_runs'] += 1
            if acc.extra['non_terminating_runs'] > 3:
                raise StopExploration()
        # determinism: the same schedule twice gives the same observation
        acc.step(out['gets'] >= 2 or bool(out['sum']) and prior != 'absent',
                 'direct:%s' % out['outcome'])
        acc.extra['choice_points'] += len(ch.trace)
        acc.extra['schedules'] += 1
        seen.append((ch.schedule, out))
        for clause, exp, got in direct_oracle(prior, mode, out):
            sig = '%s/direct/%s/%s' % (PROP, 'per-request' if mode == 'per-request' else 'constant',
                                       clause)
            acc.violation(sig, core.make_record(
                PROP, 'direct', sig, case=dict(case, schedule=ch.schedule, executed_before=list(_EXECUTED[:-1])),
                trace={'prior': prior, 'checksum': mode, 'data_answers': out['data'],
                       'checksum_answers': out['sum'], 'schedule': ch.schedule},
                expected=exp, observed={'what': got, 'outcome': out['outcome'], 'exc': out['exc'],
                                        'gets': out['gets']}), len(ch.trace))

    acc.state()
    if first is not None:
        ch = core.Choices(first)
        out = run(ch)
        on_exec(ch, out)
    else:
        try:
            core.explore_env(run, on_exec)
        except core.ChoiceDivergence as e:
            # the same prefix of server answers led to another execution than before: the code under
            # test behaves differently depending on the calls made earlier in this process
            sig = '%s/direct/%s/behaviour-depends-on-earlier-calls' % (
                PROP, 'per-request' if mode == 'per-request' else 'constant')
            acc.step(True, 'direct:diverged')
            acc.violation(sig, core.make_record(
                PROP, 'direct', sig, case=dict(case, schedule=attempted[-1] if attempted else [],
                                               executed_before=list(_EXECUTED[:-1])),
                expected='the same server answers give the same execution, whatever ran before',
                observed=str(e)), 0)
            return [(scenario_key(prior, mode, o), sc) for sc, o in seen]
        except StopExploration:
            acc.extra['exploration_stopped_after_hangs'] += 1
            return [(scenario_key(prior, mode, o), sc) for sc, o in seen]
        # replay the first and the last schedule again: identical observations required
        for sched, out in (seen[0], seen[-1]):
            out2 = run(core.Choices(sched))
            if (out2['outcome'], out2['data'], out2['sum'], out2['file_md5']) != \
                    (out['outcome'], out['data'], out['sum'], out['file_md5']):
                acc.violation('HARNESS/nondeterministic-replay', core.make_record(
                    PROP, 'direct', 'HARNESS/nondeterministic-replay', case=case, expected=out,
                    observed=out2), 0)
    case['_seen'] = [(scenario_key(prior, mode, o), sc) for sc, o in seen]
    set_bodies('small')
    ENTRY['kind'] = 'download_file'
    PATHLEN['n'] = None
    acc.extra['scenarios:%s:%s' % (prior, mode)] = len(set(k for k, _ in case['_seen']))
    if mode != 'per-request':
        acc.sample({'prior': prior, 'checksum': mode,
                    'schedules': [{'data': o['data'], 'sum': o['sum'], 'outcome': o['outcome']}
                                  for _, o in seen][:6]})
    return case['_seen']


# ---------------------------------------------------------------------------
# TLA+ model conformance
# ---------------------------------------------------------------------------

def parse_tuple_seq(text):
    items = re.findall(r'<<("[a-z_]+"(?:, "[a-z_]+")*)>>', text)
    return [tuple(p.strip().strip('"') for p in it.split(',')) for it in items]


def model_paths(ctx, per_request):
    cfg = 'CONSTANTS PerRequest = %s\nINIT Init\nNEXT Next\nINVARIANTS NoBadSuccess AtMostOneRetry ' \
          'NoRedownload RetryIffMismatch ErrorsRaise\n' % ('TRUE' if per_request else 'FALSE')
    wd = os.path.join(core.scratch_root(), 'tlc-download-%s' % per_request)
    rc, out, dump = run_tlc('Download', cfg, wd)
    m = re.search(r'(\d+) states generated, (\d+) distinct states found', out)
    if rc != 0 or not m or 'No error has been found' not in out:
        ctx.acc.violation('HARNESS/tlc-download', core.make_record(PROP, 'model', 'HARNESS/tlc-download',
                                                                   observed=out[-1500:]))
        return None, None
    states = parse_dump(dump)
    terminals = []
    for st in states:
        if st.get('pc', '').strip() != '"done"':
            continue
        h = parse_tuple_seq(st['hist'])
        init = h[0]
        terminals.append({'prior': init[1], 'sum': init[2],
                          'data': [x[1] for x in h[1:] if x[0] == 'data'],
                          'sums': [x[1] for x in h[1:] if x[0] == 'md5'],
                          'outcome': st['outcome'].strip().strip('"'),
                          'gets': int(st['gets']), 'file': st['file'].strip().strip('"')})
    info = {'generated': int(m.group(1)), 'distinct': int(m.group(2)), 'terminal_paths': len(terminals)}
    return terminals, info


def run_model_path(case, acc, order):
    """Drive the implementation along one terminal path of the model (its data answers); what the
    implementation then does must itself be a terminal path of the model (the model is
    nondeterministic where the statement is silent, e.g. an existing file whose checksum is
    unavailable may be kept or downloaded again)."""
    t = case['path']
    set_bodies('small')
    model_set = set(tuple(k) if not isinstance(k, tuple) else k for k in map(
        lambda k: (k[0], k[1], tuple(k[2]), k[3], k[4]), case['model_set']))
    out = run_download(t['prior'], t['sum'], None, data_script=t['data'])
    acc.step(t['gets'] >= 1, 'model-path:%s' % t['outcome'])
    if out['unscripted']:
        acc.extra['model_paths_left_by_impl'] += 1    # covered from the other side by the direct sweep
        return
    key = (t['prior'], t['sum'], tuple(out['data']), out['outcome'], out['gets'])
    file_ok = out['file_md5'] == MD5_GOOD
    bad = None
    if key not in model_set:
        bad = 'outcome-not-allowed-by-model'
    elif out['outcome'] == 'returned' and t['sum'] != 'missing' and not file_ok:
        bad = 'file-validity'
    if key == (t['prior'], t['sum'], tuple(t['data']), t['outcome'], t['gets']):
        acc.extra['model_paths_followed_exactly'] += 1
    if bad:
        sig = '%s/model-conformance/constant/%s' % (PROP, bad)
        acc.violation(sig, core.make_record(
            PROP, 'model', sig, case=case, trace=t,
            expected='(data answers consumed, outcome, data GETs) is a terminal path of the model',
            observed={'outcome': out['outcome'], 'gets': out['gets'], 'file_valid': file_ok,
                      'data': out['data'], 'sums': out['sum']}), order)


def explore(ctx):
    ctx.rule = ('state = (prior file, checksum behaviour) configuration, plus every TLC model state; '
                'transition = one complete execution of the real download_file under one schedule of '
                'server answers (every alternative at every request actually made is explored), '
                'checked clause by clause, and one replay per terminal path of the TLA+ model; '
                'non-trivial = the run retried, or verified an existing file')
    ctx.assumptions = ['responses.RequestsMock is the trusted HTTP mock', 'HEAD answers are constant',
                       'nothing is claimed about the file after an exception',
                       'per-request mode: "published" checksum = the last one the server answered']
    # direct exploration
    seen_const = {}
    for mode_set, name in ((SUMS, 'direct-constant'), (['per-request'], 'direct-per-request'),
                           (SUMS, 'direct-constant-large'), (SUMS, 'direct-constant-empty'),
                           (SUMS, 'direct-constant-testfile'), (SUMS, 'direct-constant-path56'),
                           (SUMS, 'direct-constant-path60')):
        cases = [dict({'prior': p, 'sum': s}, **({'body': name.split('-')[-1]}
                                                  if name.split('-')[-1] in SIZES else
                                                  ({'entry': 'download_test_file'}
                                                   if name.endswith('testfile') else
                                                   ({'pathlen': int(name[-2:])} if 'path' in name else {}))))
                 for p in PRIOR for s in mode_set]
        # run in-process (small) so that the explored scenario sets can be collected
        sub = core.Acc()
        for i, c in enumerate(cases):
            keys = run_direct(c, sub, i)
            if name == 'direct-constant':
                seen_const[(c['prior'], c['sum'])] = dict(keys)
            c.pop('_seen', None)
        ctx.sweeps[name] = {'cases': len(cases), 'states': sub.states, 'transitions': sub.transitions,
                            'nontrivial': sub.nontrivial}
        ctx.acc.merge(sub)
    ctx.run_cases(run_many, [{'n': 300 if ctx.thorough else 140}], chunk=1, sweep='many-downloads-in-one-process')
    # model
    terminals, info = model_paths(ctx, False)
    if terminals is not None:
        ctx.notes['tlc_download_constant'] = info
        model_set = set((t['prior'], t['sum'], tuple(t['data']), t['outcome'], t['gets'])
                        for t in terminals)
        mlist = [list(k[:2]) + [list(k[2])] + list(k[3:]) for k in sorted(model_set)]
        ctx.run_cases(run_model_path, [{'path': t, 'model_set': mlist} for t in terminals],
                      sweep='model-paths-constant')
        ctx.acc.states += info['distinct']
        # every explored schedule must be a model path (same scenario, same outcome)
        extra = 0
        for (p, s), keys in seen_const.items():
            for k, sched in keys.items():
                ctx.acc.step(False, 'schedule-in-model')
                if k not in model_set:
                    extra += 1
                    sig = '%s/model-conformance/constant/schedule-not-in-model' % PROP
                    ctx.acc.violation(sig, core.make_record(
                        PROP, 'direct', sig, case={'prior': p, 'sum': s, 'schedule': sched},
                        trace={'scenario': k}, expected='a terminal path of tla/Download.tla',
                        observed=k), len(sched))
        ctx.notes['schedules_not_in_model'] = extra
    if ctx.thorough:
        terminals2, info2 = model_paths(ctx, True)
        if terminals2 is not None:
            ctx.notes['tlc_download_per_request'] = dict(info2, note='advisory: which checksum answer '
                                                         'is consumed when is implementation-specific')
            ctx.acc.states += info2['distinct']
    ctx.bounds = {'data_answers': DATA, 'checksum': SUMS + ['per-request'], 'prior': PRIOR,
                  'body_bytes': SIZES}


def _observe(case):
    set_bodies(case.get('body', 'small'))
    ENTRY['kind'] = case.get('entry', 'download_file')
    PATHLEN['n'] = case.get('pathlen')
    ch = core.Choices(case.get('schedule') or [])
    out = run_download(case['prior'], case['sum'], ch)
    set_bodies('small')
    ENTRY['kind'] = 'download_file'
    PATHLEN['n'] = None
    return (out['outcome'], tuple(out['data']), tuple(out['sum']), out['file_md5'], len(ch.trace))


def replay(record):
    imports()
    acc = core.Acc()
    if record.get('subcheck') == 'many':
        run_many(record['case'], acc, 0)
        return [dict(v['record'], signature=s) for s, v in acc.violations.items()]
    if record['signature'].endswith('behaviour-depends-on-earlier-calls'):
        # the schedule in a fresh process, then after the recorded earlier executions: same observation?
        case = record['case']
        first = _observe(case)
        for h in case.get('executed_before') or []:
            _observe(h)
        again = _observe(case)
        if first != again:
            acc.violation(record['signature'], core.make_record(
                PROP, 'direct', record['signature'], case=case, expected=list(first), observed=list(again)))
        return [dict(v['record'], signature=s) for s, v in acc.violations.items()]
    if record['subcheck'] == 'model':
        run_model_path(record['case'], acc, 0)
    else:
        keys = run_direct({k: v for k, v in record['case'].items() if k != 'executed_before'}, acc, 0)
        if record['signature'] not in acc.violations and record['case'].get('executed_before'):
            # not reproduced on its own: run what the process had executed before it, then the case again
            for h in record['case']['executed_before']:
                run_direct({'prior': h['prior'], 'sum': h['sum'], 'body': h['body'], 'entry': h['entry'], 'pathlen': h.get('pathlen'),
                            'schedule': h['schedule']}, core.Acc(), 0)
            acc = core.Acc()
            keys = run_direct({k: v for k, v in record['case'].items() if k != 'executed_before'}, acc, 0)
        if record['signature'].endswith('schedule-not-in-model'):
            ctx = core.Ctx(PROP, 'quick', 0, 1)
            terminals, _ = model_paths(ctx, False)
            model_set = set((t['prior'], t['sum'], tuple(t['data']), t['outcome'], t['gets'])
                            for t in terminals or [])
            for k, sched in keys:
                if k not in model_set:
                    acc.violation(record['signature'], core.make_record(
                        PROP, 'direct', record['signature'], case=record['case'], observed=k))
    return [dict(v['record'], signature=s) for s, v in acc.violations.items()]
