# -*- coding: utf-8 -*-
"""C15 -- correlograms count exactly the spike pairs in each lag bin.

space mode: every non-decreasing spike train up to a length bound on a small sample
grid x every labelling x cluster-id lists x (bin, half-window) x sample rate x
symmetrize, against a double loop over pairs.
"""
import itertools

import numpy as np

from .. import core
from ..util import arr_equal, describe

PROP = 'C15'

PARAMS = [(1, 0), (1, 1), (1, 2), (2, 1), (2, 2), (3, 1)]      # (bin in samples, half-window in bins)
RATES = [1.0, 2.0, 0.5, 1024.0, 10.0, 1000.0, 32768.0]   # 10 / 1000: used only where time * rate is exact
EXTRA = 9   # an id that never has spikes


def imports():
    core.import_phylib('phylib.stats.ccg')


def ref_onesided(samples, labels, ids, binsize, half):
    """C[i, j, k] = number of pairs a < b with label a = ids[i], label b = ids[j],
    floor((s_b - s_a) / bin) = k <= half."""
    pos = {c: i for i, c in enumerate(ids)}
    C = np.zeros((len(ids), len(ids), half + 1), dtype=np.int64)
    n = len(samples)
    for a in range(n):
        for b in range(a + 1, n):
            k = (samples[b] - samples[a]) // binsize
            if k <= half:
                C[pos[labels[a]], pos[labels[b]], k] += 1
    return C


def ref_symmetric(C):
    n, _, hb = C.shape
    half = hb - 1
    S = np.zeros((n, n, 2 * half + 1), dtype=np.int64)
    for i in range(n):
        for j in range(n):
            S[i, j, half] = max(C[i, j, 0], C[j, i, 0])
            for k in range(1, half + 1):
                S[i, j, half + k] = C[i, j, k]
                S[i, j, half - k] = C[j, i, k]
    return S


def id_lists(alphabet, tier, rot):
    """Caller-supplied cluster-id lists: None, orderings of all ids, orderings with an extra id."""
    out = [('none', None)]
    perms = list(itertools.permutations(alphabet))
    if len(alphabet) > 2:
        # identity, reversed and two rotating others
        sel = [perms[0], perms[-1], perms[(1 + rot) % len(perms)], perms[(7 + 3 * rot) % len(perms)]]
        perms = list(dict.fromkeys(sel))
    for p in perms:
        out.append(('perm', list(p)))
    with_extra = list(itertools.permutations(list(alphabet) + [EXTRA]))
    if len(alphabet) > 2 or tier == 'thorough-long':
        with_extra = [with_extra[0], with_extra[-1], with_extra[(5 + rot) % len(with_extra)]]
    for p in with_extra:
        out.append(('extra', list(p)))
    return out


def run_case(case, acc, order):
    from phylib.stats.ccg import correlograms, firing_rate
    train = case['train']
    alphabet = case['alphabet']
    n = len(train)
    samples = np.array(train, dtype=np.int64)
    rate = RATES[(order + case['seed']) % len(RATES)]
    times = samples / rate
    if not np.array_equal((times * rate).astype(np.int64), samples):
        rate = 1.0                       # the precondition "time * rate is exact" does not hold here
        times = samples / rate
    ctype = [np.int64, np.int32, np.uint32][(order // len(RATES) + case['seed']) % 3]
    lists = id_lists(alphabet, case['tier'], order + case['seed'])
    only = case.get('only')
    labelings = ([tuple(only['prev'])] if only.get('prev') else []) + [tuple(only['labels'])] \
        if only is not None else itertools.product(alphabet, repeat=n)
    # one label vector per train, relabelled in place from one labelling to the next (as a curation
    # session does): a call must not remember anything about the object it was given before
    labels_arr = np.zeros(n, dtype=ctype)
    prev_labels = None
    for labels in labelings:
        if core.too_many_timeouts():
            return
        acc.state()
        prev_for_record, prev_labels = prev_labels, list(labels)
        labels_arr[:] = labels
        present = sorted(set(labels))
        tie = any(train[i] == train[i + 1] for i in range(n - 1))
        for (b, half) in PARAMS:
            bin_size = b / rate
            # the window is 2*half+1 bins, or (dyadic rates, so that the products are exact) half a bin
            # more: the half-window is still floor(window / (2 bin)) = half
            extra = 0.5 if (rate in (1.0, 2.0, 0.5, 1024.0, 32768.0) and (b + half) % 2 == 0) else 0.0
            window = (2 * half + 1 + extra) * bin_size
            edge = any((train[j] - train[i]) // b == half for i in range(n) for j in range(i + 1, n))
            nontrivial = len(present) >= 2 and (tie or edge)
            full_ids = list(alphabet) + [EXTRA]
            Cfull = ref_onesided(train, labels, full_ids, b, half)
            for lname, ids in lists:
                eff = present if ids is None else ids
                idx = [full_ids.index(c) for c in eff]
                C = Cfull[np.ix_(idx, idx)]
                for sym in (False, True):
                    if core.too_many_timeouts():
                        return
                    exp = ref_symmetric(C) if sym else C
                    try:
                        with core.time_limit(5):
                            ids_arg = ids if ids is None else [list(ids), np.array(ids, dtype=np.int64),
                                                               tuple(ids)][(b + half + sym) % 3]
                            expl = (b + half) % 2 == 1      # defaults passed explicitly in one half
                            ckw = {} if (sym and not expl) else {'symmetrize': sym}     # True is the default
                            if ids_arg is not None or expl:
                                ckw['cluster_ids'] = ids_arg
                            if rate != 1.0 or expl:
                                ckw['sample_rate'] = rate                   # 1.0 is the default
                            got = correlograms(times, labels_arr, bin_size=bin_size, window_size=window,
                                               **ckw)
                    except (Exception, core.CaseTimeout) as e:
                        got = e
                    ok = isinstance(got, np.ndarray) and arr_equal(got, exp, dtype=False)
                    acc.step(nontrivial, 'ccg:%s:%s' % ('sym' if sym else 'one', lname))
                    if not ok:
                        if isinstance(got, BaseException):
                            kind = type(got).__name__
                        elif got.shape != exp.shape:
                            kind = 'shape'
                        elif sym and np.array_equal(got[..., half + 1:], exp[..., half + 1:]) and \
                                np.array_equal(got[..., :half], exp[..., :half]):
                            kind = 'value,centre'
                        elif sym and np.array_equal(got[..., half:], exp[..., half:]):
                            kind = 'value,negative-lags'
                        else:
                            kind = 'value'
                        sig = '%s/correlograms/%s/ids=%s/%s' % (PROP, 'sym' if sym else 'onesided',
                                                                lname, kind)
                        op = {'labels': list(labels), 'bin': b, 'half': half, 'ids': ids, 'sym': sym,
                              'rate': rate}
                        acc.violation(sig, core.make_record(
                            PROP, 'correlograms', sig,
                            case=dict(case, only={'labels': list(labels), 'prev': prev_for_record}),
                            op=op, expected=describe(exp), observed=describe(got), order=order),
                            order * 1000 + n)
        # firing-rate normaliser
        counts_full = {c: sum(1 for x in labels if x == c) for c in list(alphabet) + [EXTRA]}
        for lname, ids in lists:
            eff = present if ids is None else ids
            cnt = np.array([counts_full[c] for c in eff], dtype=np.float64)
            for (b, dur) in ((1, None), (2, 8.0), (3, 0.5)):
                bin_size = b / rate
                exp = np.outer(cnt, cnt) * (bin_size / (dur or 1.))
                try:
                    got = firing_rate(labels_arr, cluster_ids=ids, bin_size=bin_size, duration=dur)
                except (Exception, core.CaseTimeout) as e:
                    got = e
                trailing_empty = ids is not None and len(ids) and counts_full[ids[-1]] == 0
                acc.step(bool(trailing_empty) or len(present) >= 2, 'rate:%s' % lname)
                ok = isinstance(got, np.ndarray) and got.shape == exp.shape and \
                    np.allclose(got, exp, rtol=1e-12, atol=0)
                if n == 0 and ids is None and isinstance(got, np.ndarray) and got.size == 0:
                    ok = True
                if not ok:
                    kind = type(got).__name__ if isinstance(got, BaseException) else (
                        'shape' if got.shape != exp.shape else 'value')
                    sig = '%s/firing_rate/ids=%s/%s' % (PROP, lname, kind)
                    acc.violation(sig, core.make_record(
                        PROP, 'firing_rate', sig, case=dict(case, only={'labels': list(labels), 'prev': prev_for_record}),
                        op={'labels': list(labels), 'ids': ids, 'bin': b, 'duration': dur,
                            'rate': rate},
                        expected=describe(exp), observed=describe(got), order=order),
                        order * 1000 + n)
    if order % 211 == 0:
        acc.sample({'train_samples': train, 'alphabet': alphabet, 'rate': rate,
                    'params(bin,half)': PARAMS})


def self_test():
    """Reference against the hand-computed example of the repository's test_ccg_1."""
    # spike_samples = [2, 3, 10, 12, 20, 24, 30, 40], clusters [0,1,0,0,2,1,0,2], bin 1, window 2*8+1
    s = [2, 3, 10, 12, 20, 24, 30, 40]
    l = [0, 1, 0, 0, 2, 1, 0, 2]
    C = ref_onesided(s, l, [0, 1, 2], 1, 8)
    # pairs within 8 samples, cluster (0,0): (2,10)->8, (10,12)->2 ; (0,1): (2,3)->1
    assert C[0, 0, 8] == 1 and C[0, 0, 2] == 1 and C[0, 1, 1] == 1 and C[1, 0, 7] == 1
    S = ref_symmetric(C)
    assert S.shape == (3, 3, 17) and S[0, 1, 8 + 1] == 1 and S[1, 0, 8 - 1] == 1
    assert np.array_equal(S, np.transpose(S, (1, 0, 2))[..., ::-1])


def periodic(pattern, n):
    return [pattern[i % len(pattern)] for i in range(n)]


def long_cases(ctx):
    """Enumerated long family: every gap pattern of period <= 3 over gaps {0,1,2,3} x every
    label pattern of period <= 3 over two clusters, repeated to a fixed length."""
    lengths = (40, 97) if ctx.thorough else (40,)
    cases = []
    for n in lengths:
        for p in (1, 2, 3):
            for gaps in itertools.product((0, 1, 2, 3), repeat=p):
                g = periodic(gaps, n)
                train = list(np.cumsum(g) - g[0])
                for q in (1, 2, 3):
                    for lab in itertools.product((2, 5), repeat=q):
                        cases.append({'train': [int(t) for t in train], 'alphabet': [2, 5],
                                      'seed': ctx.seed, 'tier': 'thorough-long',
                                      'only': {'labels': periodic(lab, n)}})
    # a dense train: one (i, j, k) entry holds more pairs than a 16-bit counter
    for n in ((300, 400) if ctx.thorough else (300,)):
        cases.append({'train': [0] * n, 'alphabet': [2, 5], 'seed': ctx.seed, 'tier': 'thorough-long',
                      'only': {'labels': [2] * n}})
        cases.append({'train': [0] * (n // 2) + [1] * (n - n // 2), 'alphabet': [2, 5], 'seed': ctx.seed,
                      'tier': 'thorough-long', 'only': {'labels': [2, 5] * (n // 2) + [2] * (n % 2)}})
    return cases


def run_late(case, acc, order):
    """Short trains late in a long recording: sample numbers beyond 2**24 (float32 times, rate 1.5) or
    beyond 2**32 (float64 times, rate 1024); the time values are exact in their dtype and time * rate is
    exact in double precision, so the counts are those of the integer sample numbers."""
    from phylib.stats.ccg import correlograms
    kind = case['kind']
    acc.state()
    for n in range(2, case['max_len'] + 1):
        for d in itertools.combinations_with_replacement(range(case['grid']), n):
            if kind == 'float32':
                rate, J = 1.5, 5600001
                samples = [3 * (J + x) for x in d]
                times = np.array([2 * (J + x) for x in d], dtype=np.float32)
                unit = 3                 # samples per grid step
            else:
                rate, J = 1024.0, 2 ** 33 + 5
                samples = [J + x for x in d]
                times = np.array(samples, dtype=np.float64) / rate
                unit = 1
            assert [int(x) for x in (times.astype(np.float64) * rate)] == samples
            for labels in itertools.product((2, 5), repeat=n):
                labels_arr = np.array(labels, dtype=np.int64)
                for (b, half) in ((1, 1), (2, 2)):
                    binsamp = b * unit
                    bin_size = binsamp / rate
                    window = (2 * half + 1) * bin_size
                    C = ref_onesided(samples, labels, [2, 5], binsamp, half)
                    for sym in (False, True):
                        exp = ref_symmetric(C) if sym else C
                        try:
                            with core.time_limit(5):
                                got = correlograms(times, labels_arr, cluster_ids=[2, 5], sample_rate=rate,
                                                   bin_size=bin_size, window_size=window, symmetrize=sym)
                        except (Exception, core.CaseTimeout) as e:
                            got = e
                        acc.step(True, 'ccg:late:%s' % kind)
                        if not (isinstance(got, np.ndarray) and arr_equal(got, exp, dtype=False)):
                            sig = '%s/correlograms/late-in-recording/%s-times/%s' % (
                                PROP, kind, type(got).__name__ if isinstance(got, BaseException) else 'value')
                            acc.violation(sig, core.make_record(
                                PROP, 'correlograms', sig, case=case,
                                op={'samples': samples, 'labels': list(labels), 'bin_samples': binsamp,
                                    'half': half, 'sym': sym, 'rate': rate},
                                expected=describe(exp), observed=describe(got)), order * 1000 + n)
                            return


def explore(ctx):
    self_test()
    thorough = ctx.thorough
    L, G = (7, 7) if thorough else (5, 6)
    L2, alpha2 = (5, [0, 2, 5, 7]) if thorough else (3, [0, 2, 5])
    ctx.bounds = {'max_len': L, 'grid': G, 'clusters': 2, 'params_bin_half': PARAMS, 'rates': RATES,
                  'second_sweep': {'max_len': L2, 'grid': 6, 'clusters': len(alpha2)},
                  'long_family': 'period<=3 gap patterns over {0..3} x period<=3 label patterns, '
                                 'length 40 (and 97 thorough)'}
    ctx.rule = ('state = one labelled spike train (every non-decreasing sample vector of length <= L '
                'on 0..G-1 x every labelling; plus an enumerated periodic long family); transition = '
                'one correlograms()/firing_rate() call for a (bin, half-window, cluster-id list, '
                'symmetrize) point compared with the double loop over pairs; non-trivial = >= 2 '
                'clusters present and (two spikes at the same time or a pair exactly in the last bin '
                'of the window); for firing_rate: >= 2 clusters or a trailing id without spikes')
    ctx.assumptions = ['sample rates are powers of two so that time*rate is exact',
                       'cluster-id lists contain every present id (documented precondition)']
    cases = []
    for n in range(0, L + 1):
        for train in itertools.combinations_with_replacement(range(G), n):
            cases.append({'train': list(train), 'alphabet': [2, 5], 'seed': ctx.seed,
                          'tier': 'thorough-long' if (thorough and n >= 7) else ctx.tier})
    ctx.run_cases(run_case, cases, chunk=4, sweep='two-clusters')
    cases = []
    for n in range(0, L2 + 1):
        for train in itertools.combinations_with_replacement(range(6), n):
            cases.append({'train': list(train), 'alphabet': alpha2, 'seed': ctx.seed,
                          'tier': ctx.tier})
    ctx.run_cases(run_case, cases, chunk=2, sweep='more-clusters')
    ctx.run_cases(run_case, long_cases(ctx), chunk=8, sweep='long-periodic')
    ctx.run_cases(run_late, [{'late': True, 'kind': k, 'max_len': 4 if thorough else 3, 'grid': 5 if thorough else 4}
                             for k in ('float32', 'float64')], chunk=1, sweep='late-in-recording')


def replay(record):
    imports()
    acc = core.Acc()
    if (record.get('case') or {}).get('late'):
        run_late(record['case'], acc, 0)
        return [dict(v['record'], signature=s) for s, v in acc.violations.items()]
    run_case(record['case'], acc, record.get('order', 0))
    # the rate / dtype rotation depends on the order: try all offsets so the recorded op is hit
    if not acc.violations:
        for o in range(1, 8):
            run_case(record['case'], acc, o)
    return [v['record'] for v in acc.violations.values()]
