# -*- coding: utf-8 -*-
"""C06 -- sparse feature storage is densified exactly.

space mode: A1 every (data, column table, requested channels) triple of from_sparse in a small
scope; A2 every ordered spike subset x every channel permutation against generated feature
stores (all spikes / listed subset, with / without column table), same for template features;
A3 waveform-derived features (no feature file, a spike-waveform store) against an eigh-based
PCA reference.
"""
import itertools

import numpy as np

from .. import core
from ..gen import dsgen
from ..util import describe

PROP = 'C06'


def imports():
    core.import_phylib('phylib.io.model')


# ---------------------------------------------------------------------------
# A1 from_sparse
# ---------------------------------------------------------------------------

def col_rows(n_loc):
    rows = []
    for r in itertools.product((0, 1, 2, -1), repeat=n_loc):
        nn = [c for c in r if c != -1]
        if len(set(nn)) == len(nn):
            rows.append(list(r))
    return rows


def requests():
    out = [()]
    for k in (1, 2, 3):
        out += list(itertools.permutations((0, 1, 2, 5), k))
    return out


def ref_from_sparse(data, cols, channels):
    ns, nloc = cols.shape
    out = np.zeros((ns, len(channels)) + data.shape[2:], dtype=data.dtype)
    for i in range(ns):
        for j, ch in enumerate(channels):
            for k in range(nloc):
                if cols[i, k] == ch:
                    out[i, j] = data[i, k]
    return out


def run_a1(case, acc, order):
    from phylib.io.model import from_sparse
    n_loc, ns, trailing, dt = case['n_loc'], case['n_spikes'], tuple(case['trailing']), case['dtype']
    rows = col_rows(n_loc)
    tables = list(itertools.product(rows, repeat=ns))
    only = case.get('only_op')
    opi = -1
    for ti, table in enumerate(tables):
        cols = np.array(table, dtype=[np.int64, np.int32, np.uint32][ti % 3]
                        if all(c >= 0 for r in table for c in r) else
                        [np.int64, np.int32][ti % 2]).reshape(ns, n_loc)
        data = (np.arange(1, ns * n_loc * int(np.prod(trailing or (1,))) + 1, dtype=dt) * 0.5).reshape(
            (ns, n_loc) + trailing)
        # the caller's arrays are used for every request on this table (as a caller would): the
        # reference works on private copies, and the arrays must come back unchanged
        cols0, data0 = cols.copy(), data.copy()
        acc.state()
        for req in requests():
            for cont in ('list', 'array'):
                opi += 1
                if only is not None and only != opi:
                    continue
                ch = list(req) if cont == 'list' else np.array(req, dtype=np.int64)
                exp = ref_from_sparse(data0, cols0, list(req))
                try:
                    got = from_sparse(data, cols, ch)
                except Exception as e:
                    got = e
                if not (np.array_equal(cols, cols0) and np.array_equal(data, data0)):
                    sig = '%s/from_sparse/input-arrays-modified' % PROP
                    acc.violation(sig, core.make_record(
                        PROP, 'from_sparse', sig, case=dict(case, only_op=opi),
                        op={'cols': [list(r) for r in table], 'cols_dtype': str(cols.dtype),
                            'channels': list(req), 'container': cont},
                        expected=describe(cols0), observed=describe(cols)), order * 10 ** 6 + opi)
                    cols, data = cols0.copy(), data0.copy()
                unknown = any(c == 5 for c in req) or any(
                    c not in r for r in table for c in req)
                acc.step(unknown or list(req) != sorted(req), 'a1')
                ok = isinstance(got, np.ndarray) and got.shape == exp.shape and \
                    got.dtype == exp.dtype and np.array_equal(got, exp)
                if not ok:
                    kind = type(got).__name__ if isinstance(got, BaseException) else (
                        'shape' if got.shape != exp.shape else 'dtype' if got.dtype != exp.dtype
                        else 'value')
                    feat = 'empty-request' if len(req) == 0 else (
                        'no-spikes' if ns == 0 else ('trailing-dims' if trailing else 'plain'))
                    sig = '%s/from_sparse/%s/%s' % (PROP, feat, kind)
                    acc.violation(sig, core.make_record(
                        PROP, 'from_sparse', sig, case=dict(case, only_op=opi),
                        op={'cols': [list(r) for r in table], 'channels': list(req), 'container': cont},
                        expected=describe(exp), observed=describe(got)), order * 10 ** 6 + opi)
        # repeated requested channels must be refused
        opi += 1
        if (only is None or only == opi) and ns > 0:
            try:
                got = from_sparse(data, cols, [1, 1])
                refused = False
            except NotImplementedError:
                refused = True
            except Exception:
                refused = True
            acc.step(True, 'a1:repeated')
            if not refused:
                sig = '%s/from_sparse/repeated-request/not-refused' % PROP
                acc.violation(sig, core.make_record(PROP, 'from_sparse', sig,
                                                    case=dict(case, only_op=opi),
                                                    expected='NotImplementedError',
                                                    observed=describe(got)), order * 10 ** 6 + opi)
    if order % 5 == 0:
        acc.sample({'from_sparse': case})


# ---------------------------------------------------------------------------
# A2 model queries
# ---------------------------------------------------------------------------

def run_a2(case, acc, order):
    from phylib.io.model import load_model
    spec = case['spec']
    with core.Scratch() as d:
        tr = dsgen.make_dataset(d / 'ds', spec)
        m = load_model(tr['params_path'])
        try:
            acc.state()
            s = tr['spec']
            ns, nt, nc = s['n_spikes'], s['n_templates'], s['n_channels']
            st = tr['spike_templates'].astype(np.int64)
            only = case.get('only_op')
            opi = -1
            spike_reqs = []
            for k in (0, 1, 2, 3):
                spike_reqs += list(itertools.permutations(case.get('query_spikes') or range(ns), k))
            chan_reqs = []
            for k in (1, 2, 3):
                chan_reqs += list(itertools.permutations(list(range(nc)) + [nc + 3], k))
            # --- pc features
            if tr['pc_features'] is not None:
                pcf = tr['pc_features']            # (n_f, n_pcs, n_loc)
                rows = tr['pc_feature_rows']
                ind = tr['pc_feature_ind']
                nloc = pcf.shape[2]
                rowof = {int(sp): i for i, sp in enumerate(rows)} if rows is not None else \
                    {i: i for i in range(ns)}
                for sreq in spike_reqs:
                    for ci, creq in enumerate(chan_reqs):
                        if len(sreq) == 3 and ci % 4 != (order + len(chan_reqs)) % 4 and \
                                not case.get('full'):
                            continue
                        opi += 1
                        if only is not None and only != opi:
                            continue
                        try:
                            got = m.get_features(np.array(sreq, dtype=np.int64),
                                                 np.array(creq, dtype=np.int64))
                        except Exception as e:
                            got = e
                        unsorted = list(sreq) != sorted(sreq) or list(creq) != sorted(creq)
                        missing = any(sp not in rowof for sp in sreq)
                        acc.step(unsorted or missing or rows is not None, 'a2:features')
                        bad = None
                        if isinstance(got, BaseException):
                            bad = (type(got).__name__, None, got)
                        elif got.shape != (len(sreq), len(creq), pcf.shape[1]):
                            bad = ('shape', [len(sreq), len(creq), pcf.shape[1]], got)
                        else:
                            for i, sp in enumerate(sreq):
                                if sp not in rowof:
                                    continue        # unstored spike: unconstrained
                                for j, ch in enumerate(creq):
                                    exp = np.zeros(pcf.shape[1])
                                    cols = ind[st[sp]] if ind is not None else np.arange(nloc)
                                    for k2 in range(nloc):
                                        if int(cols[k2]) == ch:
                                            exp = pcf[rowof[sp], :, k2].astype(np.float64)
                                    g = np.asarray(got[i, j], dtype=np.float64)
                                    fin = np.isfinite(exp)
                                    if not np.array_equal(g[fin], exp[fin]):
                                        bad = ('value', exp, got)
                                        break
                                if bad:
                                    break
                        if bad:
                            feat = ('rows' if rows is not None else 'all') + \
                                (',unsorted' if unsorted else '') + (',missing' if missing else '')
                            sig = '%s/get_features/%s/%s' % (PROP, feat, bad[0])
                            acc.violation(sig, core.make_record(
                                PROP, 'get_features', sig, case=dict(case, only_op=opi),
                                op={'spikes': list(sreq), 'channels': list(creq)},
                                expected=describe(np.asarray(bad[1])) if bad[1] is not None else None,
                                observed=describe(bad[2])), order * 10 ** 6 + opi)
            # --- template features
            if tr['template_features'] is not None:
                tf = tr['template_features']
                rows = tr['template_feature_rows']
                ind = tr['template_feature_ind']
                ntl = tf.shape[1]
                rowof = {int(sp): i for i, sp in enumerate(rows)} if rows is not None else \
                    {i: i for i in range(ns)}
                for sreq in spike_reqs:
                    opi += 1
                    if only is not None and only != opi:
                        continue
                    try:
                        got = m.get_template_features(np.array(sreq, dtype=np.int64))
                    except Exception as e:
                        got = e
                    unsorted = list(sreq) != sorted(sreq)
                    missing = any(sp not in rowof for sp in sreq)
                    acc.step(unsorted or missing or rows is not None, 'a2:template-features')
                    bad = None
                    if isinstance(got, BaseException):
                        bad = (type(got).__name__, None, got)
                    elif got.shape != (len(sreq), nt):
                        bad = ('shape', [len(sreq), nt], got)
                    else:
                        for i, sp in enumerate(sreq):
                            if sp not in rowof:
                                continue
                            exp = np.zeros(nt)
                            cols = ind[st[sp]] if ind is not None else np.arange(ntl)
                            for k2 in range(ntl):
                                if 0 <= int(cols[k2]) < nt:
                                    exp[int(cols[k2])] = tf[rowof[sp], k2]
                            if not np.array_equal(np.asarray(got[i], dtype=np.float64), exp):
                                bad = ('value', exp, got)
                                break
                    if bad:
                        feat = ('rows' if rows is not None else 'all') + \
                            (',unsorted' if unsorted else '') + (',missing' if missing else '')
                        sig = '%s/get_template_features/%s/%s' % (PROP, feat, bad[0])
                        acc.violation(sig, core.make_record(
                            PROP, 'get_template_features', sig, case=dict(case, only_op=opi),
                            op={'spikes': list(sreq)},
                            expected=describe(np.asarray(bad[1])) if bad[1] is not None else None,
                            observed=describe(bad[2])), order * 10 ** 6 + opi)
        finally:
            m.close()
    acc.sample({'model_feature_store': {k: spec.get(k) for k in ('features', 'tfeatures')}})


# ---------------------------------------------------------------------------
# A3 waveform-derived features
# ---------------------------------------------------------------------------

def ref_pca(W):
    """W: (n_spikes, n_samples, n_channels) -> (features (n, nc, 3), min eigengap per channel)."""
    n, nsmp, nc = W.shape
    F = np.zeros((n, nc, 3))
    gaps = []
    for c in range(nc):
        X = W[:, :, c].astype(np.float64)
        cov = np.eye(nsmp) / n
        if n > 1:
            cov = cov + np.cov(X, rowvar=0)
        vals, vecs = np.linalg.eigh(cov)
        o = np.argsort(vals)[::-1]
        vals, vecs = vals[o], vecs[:, o]
        gaps.append(float(np.min(np.abs(np.diff(vals[:4]))) / max(1e-12, abs(vals[0]))))
        for k in range(3):
            F[:, c, k] = X @ vecs[:, k]
    return F, gaps


def run_a3(case, acc, order):
    from phylib.io.model import load_model
    nsub, variant = case['n_sub'], case['variant']
    # (odd variants: the raw recording is there too - the features are still those of the stored waveforms)
    spec = {'features': 'absent', 'tfeatures': 'absent', 'raw': variant % 2 == 1, 'fill': case['fill'],
            'n_spikes': 7, 'whitening': 'identity'}
    with core.Scratch() as d:
        tr = dsgen.make_dataset(d / 'ds', spec)
        nsw = tr['spec']['nsw']
        ids = np.array([0, 2, 3, 5, 6, 1, 4][:nsub], dtype=np.int64)
        # (variants 2, 3 mod 4: the store holds channels 0 and 3)
        stored = [1, 3] if variant % 4 < 2 else [0, 3]
        chans = np.tile(np.array(stored, dtype=np.int32), (nsub, 1))
        W = np.zeros((nsub, nsw, 2))
        for i in range(nsub):
            for t in range(nsw):
                for c in range(2):
                    W[i, t, c] = ((i + 1) * (t + 2) * (c + 3) * (variant + 1) + i * i * (t + 1) +
                                  (7 * t * c + 3 * i * c)) % 17 - 8
        np.save(str(d / 'ds' / '_phy_spikes_subset.waveforms.npy'), W)
        np.save(str(d / 'ds' / '_phy_spikes_subset.channels.npy'), chans)
        np.save(str(d / 'ds' / '_phy_spikes_subset.spikes.npy'), ids)
        m = load_model(tr['params_path'])
        try:
            acc.state()
            for k in range(1, nsub + 1):
                for sreq in itertools.combinations(range(nsub), k):
                  # both stored channels, and (for the full spike set) the first stored channel alone
                  for creq in ([stored] + ([[stored[0]]] if k == nsub else [])):
                    req_ids = ids[list(sreq)]
                    F, gaps = ref_pca(W[list(sreq)][:, :, [stored.index(c) for c in creq]])
                    try:
                        got = m.get_features(req_ids, np.array(creq))
                    except Exception as e:
                        got = e
                    degenerate = min(gaps) < 1e-6
                    acc.step(not degenerate, 'a3:pca' if not degenerate else 'a3:degenerate')
                    if degenerate:
                        # the components are not unique, but the call must still return an array
                        if not (isinstance(got, np.ndarray) and got.shape == F.shape):
                            sig = '%s/pca-features/degenerate/%s' % (
                                PROP, type(got).__name__ if isinstance(got, BaseException) else 'shape')
                            acc.violation(sig, core.make_record(
                                PROP, 'pca-features', sig, case=case,
                                op={'spikes': [int(x) for x in req_ids], 'channels': creq}, expected=list(F.shape),
                                observed=describe(got)), order * 1000 + k)
                        continue
                    ok = isinstance(got, np.ndarray) and got.shape == F.shape and np.allclose(
                        np.abs(got), np.abs(F), rtol=1e-4, atol=1e-4)
                    if ok:
                        # one sign per (channel, component), the same for every spike
                        for c in range(F.shape[1]):
                            for kk in range(3):
                                a, b = np.asarray(got[:, c, kk], dtype=np.float64), F[:, c, kk]
                                if not (np.allclose(a, b, rtol=1e-4, atol=1e-4) or
                                        np.allclose(a, -b, rtol=1e-4, atol=1e-4)):
                                    ok = False
                    if not ok:
                        kind = type(got).__name__ if isinstance(got, BaseException) else (
                            'shape' if got.shape != F.shape else 'value')
                        sig = '%s/pca-features/%s' % (PROP, kind)
                        acc.violation(sig, core.make_record(
                            PROP, 'pca-features', sig, case=case, op={'spikes': [int(x) for x in req_ids], 'channels': creq},
                            expected=describe(F), observed=describe(got)), order * 1000 + k)
        finally:
            m.close()
    acc.sample({'pca_store': {'n_sub': nsub, 'variant': variant}}) if order == 0 else None


def run_a3x(case, acc, order):
    """Waveform-derived features on stores the small A3 sweep does not reach: (mode 'big') thousands of
    stored spikes in one request; (mode 'mixed') spikes stored on different channel pairs, asked for
    channels that some spikes do not store at all (their waveform, hence feature, is zero there)."""
    from phylib.io.model import load_model
    mode = case['mode']
    ns = 2400 if mode == 'big' else 9
    spec = {'features': 'absent', 'tfeatures': 'absent', 'raw': False, 'fill': case['fill'],
            'n_spikes': ns, 'whitening': 'identity', 'n_channels': 4}
    with core.Scratch() as d:
        tr = dsgen.make_dataset(d / 'ds', spec)
        nsw = tr['spec']['nsw']
        ids = np.arange(ns, dtype=np.int64)
        pairs = [[1, 3]] if mode == 'big' else [[1, 3], [0, 2], [3, 0]]
        chans = np.array([pairs[i % len(pairs)] for i in range(ns)], dtype=np.int32)
        W = np.zeros((ns, nsw, 2))
        for i in range(ns):
            for t in range(nsw):
                for c in range(2):
                    W[i, t, c] = ((i % 13 + 1) * (t + 2) * (c + 3) + (i * i) % 11 * (t + 1) +
                                  (7 * t * c + 3 * (i % 5) * c) + (i // 7) % 3) % 17 - 8
        np.save(str(d / 'ds' / '_phy_spikes_subset.waveforms.npy'), W)
        np.save(str(d / 'ds' / '_phy_spikes_subset.channels.npy'), chans)
        np.save(str(d / 'ds' / '_phy_spikes_subset.spikes.npy'), ids)
        m = load_model(tr['params_path'])
        try:
            acc.state()
            if mode == 'big':
                requests = [(list(range(ns)), [1, 3]), (list(range(0, ns, 1))[:2000], [3, 1])]
            else:
                requests = [(list(range(ns)), [1, 2, 0]), (list(range(ns)), [3]), ([0, 1, 3, 4, 6, 7], [2, 1]),
                            (list(range(ns))[::-1], [0, 1, 2, 3])]
            for sreq, creq in requests:
                Wr = np.zeros((len(sreq), nsw, len(creq)))
                for a, i in enumerate(sreq):
                    for b, ch in enumerate(creq):
                        for k in range(2):
                            if chans[i, k] == ch:
                                Wr[a, :, b] = W[i, :, k]
                F, gaps = ref_pca(Wr)
                try:
                    got = m.get_features(np.array(sreq, dtype=np.int64), np.array(creq))
                except Exception as e:
                    got = e
                degenerate = min(gaps) < 1e-6
                acc.step(True, 'a3x:%s' % mode)
                ok = isinstance(got, np.ndarray) and got.shape == F.shape
                if ok and not degenerate:
                    for c in range(F.shape[1]):
                        for kk in range(3):
                            a_, b_ = np.asarray(got[:, c, kk], dtype=np.float64), F[:, c, kk]
                            tol = 1e-4 * max(1.0, float(np.abs(b_).max()))
                            if not (np.allclose(a_, b_, rtol=1e-4, atol=tol) or
                                    np.allclose(a_, -b_, rtol=1e-4, atol=tol)):
                                ok = False
                if not ok:
                    kind = type(got).__name__ if isinstance(got, BaseException) else (
                        'shape' if got.shape != F.shape else 'value')
                    sig = '%s/pca-features/%s/%s' % (PROP, mode, kind)
                    acc.violation(sig, core.make_record(
                        PROP, 'pca-features', sig, case=case,
                        op={'n_spikes_requested': len(sreq), 'channels': creq},
                        expected=describe(F), observed=describe(got)), order)
        finally:
            m.close()


def run_a3t(case, acc, order):
    """Two extractions of the spike-waveform store on one model (another count, another draw): the
    features then come from the second store - the one on disk."""
    from phylib.io.model import load_model
    spec = {'features': 'absent', 'tfeatures': 'absent', 'raw': True, 'fill': case['fill'], 'n_spikes': 12,
            'n_templates': 3, 'whitening': 'identity', 'n_channels': 4, 'n_raw': 80}
    with core.Scratch() as d:
        tr = dsgen.make_dataset(d / 'ds', spec)
        m = load_model(tr['params_path'])
        orig = np.random.choice
        try:
            acc.state()
            try:
                np.random.choice = lambda a, size=None, replace=True, p=None: np.asarray(a)[:size][::-1]
                m.save_spikes_subset_waveforms(max_n_spikes_per_template=case['first'])
                np.random.choice = lambda a, size=None, replace=True, p=None: np.asarray(a)[-size:]
                m.save_spikes_subset_waveforms(max_n_spikes_per_template=case['second'])
            finally:
                np.random.choice = orig
            W = np.load(str(d / 'ds' / '_phy_spikes_subset.waveforms.npy'))
            chans = np.load(str(d / 'ds' / '_phy_spikes_subset.channels.npy'))
            ids = np.load(str(d / 'ds' / '_phy_spikes_subset.spikes.npy'))
            nsw = W.shape[1]
            bad = None
            sw = m.spike_waveforms
            if sw is None or not np.array_equal(np.asarray(sw.spike_ids), ids) or \
                    not np.array_equal(np.asarray(sw.spike_channels), chans) or \
                    not np.array_equal(np.asarray(sw.waveforms), W):
                bad = ('store-held-by-the-model-differs-from-the-files', describe(ids),
                       describe(np.asarray(sw.spike_ids)) if sw is not None else None)
            acc.step(True, 'a3t:held-store')
            if not bad:
                for sreq, creq in ((list(range(len(ids))), [1, 3]), (list(range(len(ids)))[::-1], [0, 2, 1])):
                    Wr = np.zeros((len(sreq), nsw, len(creq)))
                    for a, i in enumerate(sreq):
                        for b, ch in enumerate(creq):
                            for k in range(chans.shape[1]):
                                if chans[i, k] == ch:
                                    Wr[a, :, b] = W[i, :, k]
                    F, gaps = ref_pca(Wr)
                    try:
                        got = m.get_features(ids[sreq], np.array(creq))
                    except Exception as e:
                        got = e
                    acc.step(True, 'a3t:features')
                    ok = isinstance(got, np.ndarray) and got.shape == F.shape
                    if ok and min(gaps) >= 1e-6:
                        for c in range(F.shape[1]):
                            for kk in range(3):
                                a_, b_ = np.asarray(got[:, c, kk], dtype=np.float64), F[:, c, kk]
                                tol = 1e-4 * max(1.0, float(np.abs(b_).max()))
                                if not (np.allclose(a_, b_, rtol=1e-4, atol=tol) or
                                        np.allclose(a_, -b_, rtol=1e-4, atol=tol)):
                                    ok = False
                    if not ok:
                        bad = ('features-after-second-extraction', describe(F), describe(got))
                        break
            if bad:
                sig = '%s/pca-features/two-extractions/%s' % (PROP, bad[0])
                acc.violation(sig, core.make_record(PROP, 'pca-features', sig, case=case, expected=bad[1],
                                                    observed=bad[2]), order)
        finally:
            m.close()


WIDE_ROWS = [[10, 200, 37, 150], [300, 301, 302, 303], [5, 6, 7, 8], [150, 10, 383, 0]]
WIDE_REQ = [150, 0, 24, 48, 72, 96, 120, 10, 168, 192, 216, 240, 264, 288, 312, 383]


def run_a1w(case, acc, order):
    """from_sparse on a 384-channel probe: few spikes (several from the same template, so that the
    flattened column table repeats channels), 16 requested channels spread over the probe."""
    from phylib.io.model import from_sparse
    ns = case['n_spikes']
    for ti, table in enumerate(itertools.product(range(len(WIDE_ROWS)), repeat=ns)):
        cols = np.array([WIDE_ROWS[r] for r in table], dtype=[np.uint32, np.int64, np.int32][ti % 3])
        data = (np.arange(1, ns * 4 * 3 + 1, dtype=np.float64) * 0.5).reshape((ns, 4, 3))
        acc.state()
        for ri, req in enumerate((WIDE_REQ, WIDE_REQ[::-1], [37, 10, 11], WIDE_REQ[1:] + [301])):
            exp = ref_from_sparse(data, cols.astype(np.int64), req)
            try:
                got = from_sparse(data.copy(), cols.copy(), np.array(req))
            except Exception as e:
                got = e
            acc.step(True, 'a1w:wide-request')
            if not (isinstance(got, np.ndarray) and got.shape == exp.shape and np.array_equal(got, exp)):
                sig = '%s/from_sparse/wide-probe/%s' % (PROP, type(got).__name__ if isinstance(
                    got, BaseException) else 'value')
                acc.violation(sig, core.make_record(
                    PROP, 'from_sparse', sig, case=case, op={'rows': list(table), 'requested': list(req)},
                    expected=describe(exp), observed=describe(got)), order * 1000 + ti)
                return


RUN = {'a1': run_a1, 'a2': run_a2, 'a3': run_a3, 'a3x': run_a3x, 'a1w': run_a1w, 'a3t': run_a3t}


def run_case(case, acc, order):
    RUN[case['kind']](case, acc, order)


def self_test():
    # the repository's test_from_sparse example
    data = 50 + np.arange(8).reshape((2, 4))
    cols = np.array([[0, 1, 1, 2], [1, 0, 2, 3]])   # (repeated channel in a row is outside our alphabet)
    out = ref_from_sparse(data[:, [0, 1, 3]], cols[:, [0, 1, 3]], [0, 1, 2])
    assert out.tolist() == [[50, 51, 53], [55, 54, 0]]


def explore(ctx):
    self_test()
    ctx.rule = ('state = one (data, column table) pair or one loaded feature store; transition = one '
                'from_sparse / get_features / get_template_features request compared entry by entry '
                'with the definition (stored value where the column index names the channel, else 0); '
                'non-trivial = a requested channel is unstored for some spike, the request is '
                'unsorted, a row table is present, or a requested spike is not stored')
    ctx.assumptions = ['no repeated non-negative channel within a stored column-table row',
                       'values for spikes absent from the store are unconstrained',
                       'PCA: compared up to one sign per (channel, component); eigengap < 1e-6 skipped']
    cases = []
    for n_loc in (1, 2, 3):
        for ns in (0, 1, 2):
            if ns == 2 and n_loc == 3 and not ctx.thorough:
                continue
            for trailing in ([], [2]):
                for dt in ('float32', 'float64'):
                    cases.append({'kind': 'a1', 'n_loc': n_loc, 'n_spikes': ns, 'trailing': trailing,
                                  'dtype': dt})
    ctx.run_cases(run_case, cases, chunk=1, sweep='A1-from_sparse')
    cases = []
    k = 0
    for feat in ('sparse', 'sparse_rows', 'noind', 'sparse_rows_all', 'sparse_rows_unsorted'):
        for tfe in ('sparse', 'sparse_rows', 'noind', 'sparse_rows_all', 'sparse_rows_unsorted'):
            if not ctx.thorough and 'sparse_rows_' in feat and 'sparse_rows_' in tfe and feat != tfe:
                continue
            for idt in ('int32', 'uint32'):
                for cur in ('same', 'swapped'):
                    # 'swapped': curated clusters that differ from the templates (existing ids only):
                    # the column tables are per *template*, whatever the cluster of the spike
                    st = [0, 1, 2, 0, 2, 1]
                    sc = 'same' if cur == 'same' else [1, 0, 2, 2, 0, 1]
                    spec = {'features': feat, 'tfeatures': tfe, 'raw': False, 'id_dtype': idt,
                            'fill': ctx.seed, 'n_spikes': 6, 'spike_templates': st,
                            'spike_clusters': sc,
                            # a template-feature table as wide as the number of templates, or narrower
                            'n_tloc': 3 if k % 2 else 2,
                            'feat_dtype': 'float64' if (k // 2) % 2 else 'float32'}
                    k += 1
                    cases.append({'kind': 'a2', 'full': ctx.thorough, 'spec': spec})
    # a recording with more than 100 000 spikes whose stores hold a few spikes, listed unsorted
    big = 100010
    stored = [big - 1, 4, big - 7, 2, 50000]
    cases.append({'kind': 'a2', 'full': True, 'query_spikes': stored + [3],
                  'spec': {'features': 'sparse_rows_list', 'tfeatures': 'sparse_rows_list',
                           'feat_rows': stored, 'tfeat_rows': stored[::-1], 'raw': False,
                           'id_dtype': 'int32', 'fill': ctx.seed, 'n_spikes': big, 'n_templates': 3,
                           'spike_clusters': 'same', 'n_tloc': 2, 'feat_dtype': 'float32'}})
    ctx.run_cases(run_case, cases, chunk=1, sweep='A2-model-queries')
    cases = [{'kind': 'a3', 'n_sub': n, 'variant': v, 'fill': ctx.seed}
             for n in (4, 5, 6, 7) for v in range(5 if ctx.thorough else 3)]
    cases += [{'kind': 'a3x', 'mode': mo, 'fill': ctx.seed} for mo in ('big', 'mixed')]
    cases += [{'kind': 'a3t', 'first': a, 'second': b, 'fill': ctx.seed} for a, b in ((1, 3), (3, 1), (2, 2))]
    cases += [{'kind': 'a1w', 'n_spikes': n} for n in ((2, 3, 4, 5) if ctx.thorough else (2, 3, 4))]
    ctx.run_cases(run_case, cases, chunk=1, sweep='A3-pca-route')
    ctx.bounds = {'A1': {'n_spikes': [0, 1, 2], 'n_loc': [1, 2, 3], 'cols_alphabet': [0, 1, 2, -1],
                         'requested': 'repetition-free tuples of length 0..3 over {0,1,2,5}'},
                  'A2': {'spikes': 'every ordered subset of <= 3 of 6', 'channels': 'every ordered '
                         'subset of <= 3 of the 4 channels + an unknown one'},
                  'A3': {'stored_spikes': [3, 4, 5], 'subsets': 'all'}}


def replay(record):
    imports()
    return core.replay_case(run_case, record)
