# -*- coding: utf-8 -*-
"""C14 -- exported ALF values equal the physical quantities they name.

space mode: C13's source datasets (curation x features x whitening x unit factor x probe labels)
plus merged datasets of 1..3 probes produced by the real Merger; every expected value is
recomputed from the .npy files of the directory being exported (read with np.load), except
channels.rawInd, which is compared with the probes' original channel maps.
"""
import itertools

import numpy as np

from .. import core
from ..util import describe
from . import alf_common as ac
from . import c13

PROP = 'C14'
imports = ac.imports


def ptp(x, axis=0):
    return x.max(axis=axis) - x.min(axis=axis)


def nearest_ok(listed, peak, pos, probes, ncw):
    """listed: exported channel row. Same-probe channels first in non-decreasing distance from the
    peak (L1 or Euclidean, ties in any order), peak first, and they are the nearest ones."""
    same = [c for c in range(len(pos)) if probes[c] == probes[peak]]
    k = min(ncw, len(same))
    head = [int(c) for c in listed[:k]]
    if not head or head[0] != peak:
        return 'peak-not-first'
    if len(set(head)) != len(head) or any(c not in same for c in head):
        return 'other-probe-or-duplicate'
    for metric in (1, 2):
        d = np.abs(pos - pos[peak]).sum(axis=1) if metric == 1 else ((pos - pos[peak]) ** 2).sum(axis=1)
        dh = [d[c] for c in head]
        if all(b >= a - 1e-9 for a, b in zip(dh[:-1], dh[1:])):
            rest = [d[c] for c in same if c not in head]
            if not rest or max(dh) <= min(rest) + 1e-9:
                return None
    return 'not-the-nearest'


def check_values(res, f, label, merged_truths=None):
    bad = []
    if res['exception'] is not None:
        bad.append(('convert', type(res['exception']).__name__, 'a converted dataset', res['traceback']))
        return bad
    src, out, extra = res['src_files'], res['out'], res['src_extra']

    def get(name):
        key = name if not label else name.replace('.npy', '.%s.npy' % label)
        v = out.get(key)
        return v if isinstance(v, np.ndarray) else None

    def first(*names):
        for n in names:
            if n in src:
                return src[n]
        return None

    T = first('templates.npy').astype(np.float64)
    nt, nsw, nc = T.shape
    st = first('spike_templates.npy').squeeze().astype(np.int64)
    sc = first('spike_clusters.npy').squeeze().astype(np.int64)
    amps = first('amplitudes.npy').squeeze().astype(np.float64)
    pos = first('channel_positions.npy').astype(np.float64)
    probes = first('channel_probe.npy')
    probes = probes.squeeze() if probes is not None else np.zeros(nc, dtype=int)
    wmi = first('whitening_mat_inv.npy')
    if wmi is None:
        wm = first('whitening_mat.npy')
        wmi = np.linalg.inv(wm) if wm is not None else np.eye(nc)
    Cw = extra['cluster_waveforms'].astype(np.float64)
    # the cluster waveforms themselves follow C08's definition (checked here independently of the
    # model for clusters with a unique dominant template, on the dominant template's channels)
    from . import c08
    shanks_ = first('channel_shanks.npy')
    shanks_ = shanks_.squeeze() if shanks_ is not None else np.zeros(nc)
    for c, (D, expw) in c08.reference_cluster_waveforms(T, st, sc, pos, shanks_, extra['n_closest']).items():
        if c < Cw.shape[0] and not np.allclose(Cw[c][:, D], expw, rtol=1e-11, atol=1e-12):
            bad.append(('clusters.waveforms', 'cluster-waveform-definition',
                        {'cluster': int(c), 'channels': D, 'mean': describe(expw)},
                        describe(Cw[c][:, D])))
            break
        # ... and it lives on those channels only: what is unwhitened and exported is the mean restricted
        # to the dominant template's channels, not a waveform with energy elsewhere
        rest = [ch for ch in range(nc) if ch not in set(int(x) for x in D)]
        if c < Cw.shape[0] and rest and np.any(Cw[c][:, rest] != 0):
            bad.append(('clusters.waveforms', 'energy-outside-the-dominant-template-channels',
                        {'cluster': int(c), 'channels': [int(x) for x in D]},
                        {'nonzero on': [ch for ch in rest if np.any(Cw[c][:, ch] != 0)]}))
            break
    ncw = min(extra['n_closest'], nc)
    y = pos[:, 1]

    for obj, W, ids in (('templates', T, st), ('clusters', Cw, sc)):
        nw = W.shape[0]
        Wu = np.stack([W[k] @ wmi for k in range(nw)])
        au = ptp(Wu, axis=1).max(axis=1)
        spike_true = amps * au[ids] * f
        mean = np.full(nw, np.nan)
        for k in range(nw):
            if np.any(ids == k):
                mean[k] = spike_true[ids == k].mean()
        a = get('%s.amps.npy' % obj)
        if a is None or a.shape != mean.shape or not np.allclose(a, mean, rtol=1e-5, equal_nan=True):
            bad.append(('%s.amps' % obj, 'value', describe(mean), describe(a)))
        if obj == 'templates':
            sa = get('spikes.amps.npy')
            if sa is None or sa.shape != spike_true.shape or not np.allclose(
                    sa, spike_true.astype(np.float32), rtol=1e-5):
                bad.append(('spikes.amps', 'value', describe(spike_true), describe(sa)))
        wf, wc = get('%s.waveforms.npy' % obj), get('%s.waveformsChannels.npy' % obj)
        if wf is None or wc is None or wf.shape[:2] != (nw, nsw) or wc.shape != (nw, wf.shape[2]):
            bad.append(('%s.waveforms' % obj, 'shape', [nw, nsw, ncw], describe(wf)))
            continue
        peaks_w = ptp(W, axis=1).argmax(axis=1)
        for k in range(nw):
            if np.isnan(mean[k]):
                continue
            a_w = ptp(W[k])
            if np.sum(a_w == a_w.max()) != 1:
                continue        # no unique peak channel
            peak = int(peaks_w[k])
            why = nearest_ok(wc[k], peak, pos, probes, ncw)
            if why:
                bad.append(('%s.waveformsChannels' % obj, why, {'peak': peak, 'probe': int(probes[peak])},
                            describe(wc[k])))
                break
            nsame = min(ncw, int(np.sum(probes == probes[peak])))
            chans = [int(c) for c in wc[k][:nsame]]
            exp = (Wu[k] * (mean[k] / au[k]))[:, chans]
            if not np.allclose(wf[k][:, :nsame], exp, rtol=1e-4, atol=1e-5 * max(1.0, np.abs(exp).max())):
                bad.append(('%s.waveforms' % obj, 'value', describe(exp.astype(np.float32)),
                            describe(wf[k][:, :nsame])))
                break
    # depths and durations
    empties = sorted(set(range(Cw.shape[0])) - set(sc.tolist()))
    a_c = ptp(Cw, axis=1)
    cpeak = a_c.argmax(axis=1)
    uniq = np.array([np.sum(a_c[k] == a_c[k].max()) == 1 for k in range(Cw.shape[0])])
    exp_depth = y[cpeak].astype(np.float64)
    exp_depth[empties] = np.nan
    cd = get('clusters.depths.npy')
    mask = uniq | np.isnan(exp_depth)
    if cd is None or cd.shape != exp_depth.shape or not np.allclose(cd[mask], exp_depth[mask],
                                                                     equal_nan=True):
        bad.append(('clusters.depths', 'value' + (',empty-ids' if empties else ''),
                    describe(exp_depth), describe(cd)))
    sr = float(extra.get('sample_rate', 100.0))
    exp_dur = np.array([(Cw[k][:, cpeak[k]].argmax() - Cw[k][:, cpeak[k]].argmin())
                        for k in range(Cw.shape[0])], dtype=np.float64) / sr * 1e3
    # ids without spikes: the statement gives NaN for depths only; for durations it is silent (the
    # repository's own test expects a value there for uncurated datasets), so they are not compared
    nonempty = uniq & ~np.isin(np.arange(Cw.shape[0]), empties)
    pt = get('clusters.peakToTrough.npy')
    if pt is None or pt.shape != exp_dur.shape or not np.allclose(pt[nonempty], exp_dur[nonempty],
                                                                  equal_nan=True):
        bad.append(('clusters.peakToTrough', 'value', describe(exp_dur), describe(pt)))
    sd = get('spikes.depths.npy')
    pcf = src.get('__pc_features__')
    if pcf is None:
        exp_sd = exp_depth[sc]
        ok_mask = mask[sc]
    else:
        ind = src.get('pc_feature_ind.npy')
        exp_sd = np.full(len(sc), np.nan)
        for i in range(len(sc)):
            cols = ind[st[i]].astype(np.int64) if ind is not None else np.arange(pcf.shape[2])
            w = np.maximum(pcf[i, 0, :].astype(np.float64), 0) ** 2
            if w.sum() > 0:
                exp_sd[i] = (y[cols] * w).sum() / w.sum()
        ok_mask = np.ones(len(sc), dtype=bool)
    if sd is None or sd.shape != exp_sd.shape or not np.allclose(
            sd[ok_mask], exp_sd.astype(np.float32)[ok_mask], rtol=1e-5, atol=1e-4, equal_nan=True):
        bad.append(('spikes.depths', 'value/%s' % ('features' if pcf is not None else 'no-features'),
                    describe(exp_sd), describe(sd)))
    # raw channel indices, per probe (merged datasets)
    if merged_truths is not None:
        ri = get('channels.rawInd.npy')
        exp = np.concatenate([tr['channel_map'] for tr in merged_truths]).astype(np.int64)
        if ri is None or ri.shape != exp.shape or not np.array_equal(ri.astype(np.int64), exp):
            bad.append(('channels.rawInd', 'value/k=%s' % ('1-2' if len(merged_truths) <= 2 else '>=3'),
                        describe(exp), describe(ri)))
    return bad


def run_case(case, acc, order):
    f, label = case['factor'], case['label']
    if case['kind'] == 'single':
        cfg = case['cfg']
        spec = c13.make_spec(cfg, case['fill'])
        spec['probes'] = case.get('probes', 'absent')
        spec['sample_rate'] = case.get('sample_rate', 100.0)
        if case.get('wide'):
            st_w = [0, 1, 2, 3, 3, 0, 3, 2]            # template 3 dominates the merge of 2 and 3
            # peaks far apart (channels 6, 0, 12, 13), so that the 12-channel neighbourhoods differ
            prof = []
            for pk in (6, 0, 12, 13):
                prof.append([float(20 - abs(c - pk)) for c in range(14)])
            # the dominant template is exactly flat on a channel where the other contributor has signal:
            # a flat channel is still one of its channels
            prof[3][10] = 0.0
            spec.update(n_channels=14, geometry='col14', spike_templates=st_w, profile=prof,
                        spike_clusters=[4 if x in (2, 3) else x for x in st_w])
        if case.get('geometry'):
            spec['geometry'] = case['geometry']       # (after the wide case's own geometry)
        if case.get('n_spikes'):
            # beyond one 50 000-spike batch of get_depths
            spec.update(n_spikes=case['n_spikes'], spike_templates=None, spike_clusters='same')
        res = ac.run_convert(spec=spec, label=label, factor=f, twice=bool(case.get('twice')),
                             stale_out=bool(int(spec.get('fill', 0) + len(label) + int(f * 2)) % 2))
        if res.get('truth') is not None and res['truth']['pc_features'] is not None and \
                res['truth']['pc_features'].shape[0] == spec['n_spikes']:
            res['src_files']['__pc_features__'] = res['truth']['pc_features']
        res['src_extra']['sample_rate'] = spec['sample_rate']
        nontrivial = cfg['curation'] != 'none' or f != 1 or spec['probes'] == 'two'
        bad = check_values(res, f, label)
        feat = cfg['curation']
    else:
        probes = case['probes_desc']
        res = ac.run_convert(probes=probes, label=label, factor=f, fill=case['fill'])
        res['src_extra']['sample_rate'] = 100.0
        nontrivial = len(probes) >= 2
        bad = check_values(res, f, label, merged_truths=res.get('truths'))
        feat = 'merged'
    acc.state()
    acc.step(nontrivial, 'convert:%s' % case['kind'])
    for attr, kind, exp, got in bad:
        sig = '%s/alf-values/%s/%s/%s' % (PROP, attr, kind, feat)
        acc.violation(sig, core.make_record(PROP, 'alf-values', sig, case=case, expected=exp,
                                            observed=got), order)
    if order % 23 == 0:
        acc.sample({k: case[k] for k in case if k in ('kind', 'cfg', 'factor', 'label', 'tuple')})


def merged_probe(idx, k):
    from . import c12
    q = dict(c12.FAMILY[idx])
    q['geometry'] = 'grid'      # x-ranges stay apart after merging (C12's known finding is not entangled)
    nt = q['n_templates']
    q.pop('unused_top', None)
    q['template_dtype'] = ['float32', 'float64'][k % 2]     # probes sorted with different template precisions
    q.update(n_spikes=nt + 2, templates=[i % nt for i in range(nt + 2)],
             times=[3 * i + k for i in range(nt + 2)], amp_base=1.0 + 16 * k, fill=k)
    return q


def explore(ctx):
    cases = []
    default = {a: v[0] for a, v in c13.AXES}
    i = 0
    for cur in ('none', 'merge_split', 'reassign', 'swap', 'exchange'):
        for feat in ('sparse', 'absent', 'noind'):
            for wh in ('mixing', 'absent'):
                for f in (1, 2.5):
                    for unused in (False, True):
                        for probes in ('absent', 'two'):
                            i += 1
                            cfg = dict(default, curation=cur, features=feat, whitening=wh,
                                       unused_top=unused, raw=(i % 2 == 0))
                            cases.append({'kind': 'single', 'cfg': cfg, 'factor': f, 'twice': i % 3 == 0,
                                          'label': ['', 'probe00'][i % 2], 'probes': probes,
                                          'sample_rate': [100.0, 30000.0][(i // 2) % 2],
                                          'fill': ctx.seed + i % 3})
    cases.append({'kind': 'single', 'cfg': dict(default, features='sparse', raw=False), 'factor': 1,
                  'label': '', 'probes': 'absent', 'sample_rate': 30000.0, 'fill': ctx.seed,
                  'n_spikes': 50007})
    # a curated 14-channel source: merged cluster whose dominant template is not the first contributor
    for f in (1, 2.5):
        cases.append({'kind': 'single', 'cfg': dict(default, features='absent', raw=False), 'factor': f,
                      'label': '', 'probes': 'absent', 'sample_rate': 100.0, 'fill': ctx.seed,
                      'wide': True})
    # geometries in millimetres (sites less than one unit apart) and a wide curated source with a
    # non-diagonal whitening matrix
    for cur in ('none', 'merge_split', 'reassign'):
        for f in (1, 2.5):
            cases.append({'kind': 'single', 'cfg': dict(default, curation=cur, features=['sparse', 'absent'][f == 1],
                                                        raw=False),
                          'factor': f, 'label': '', 'probes': 'absent', 'sample_rate': 100.0,
                          'fill': ctx.seed, 'geometry': 'grid_mm'})
    for geo in ('col14_mm', 'col14p_mm'):
        cases.append({'kind': 'single', 'cfg': dict(default, features='absent', raw=False), 'factor': 2.5,
                      'label': '', 'probes': 'absent', 'sample_rate': 100.0, 'fill': ctx.seed,
                      'wide': True, 'geometry': geo})
    ctx.run_cases(run_case, cases, sweep='single-probe-sources')
    cases = []
    fam = [0, 1, 2, 4, 5]
    K = 4 if ctx.thorough else 3
    for k in range(1, K + 1):
        for tup in itertools.product(fam if k <= 3 else fam[:4], repeat=k):
            cases.append({'kind': 'merged', 'tuple': list(tup),
                          'probes_desc': [merged_probe(ix, j) for j, ix in enumerate(tup)],
                          'factor': [1, 2.5][len(cases) % 2], 'label': '', 'fill': ctx.seed})
    ctx.run_cases(run_case, cases, sweep='merged-sources')
    ctx.bounds = {'single': 'curation x features x whitening x factor x unused-top x probe labels',
                  'merged': 'every 1-, 2-, 3-tuple over 4-5 probe kinds (permuted / sub-selected maps)'}
    ctx.rule = ('state = one source directory (generated, or merged from generated probes by the real '
                'Merger); transition = convert + comparison of every exported value with the formula '
                'evaluated on the source directory\'s own .npy files; non-trivial = curated clusters, '
                'unit factor != 1, two probe labels, or >= 2 merged probes')
    ctx.assumptions = ['"nearest" is accepted under the L1 or the Euclidean metric, ties in any order',
                       'cluster waveforms are read from the model (validated by C08)',
                       'templates/clusters without a unique peak channel are skipped',
                       'merged geometries keep the probes apart (see the C12 known finding)']


def replay(record):
    imports()
    return core.replay_case(run_case, record)
