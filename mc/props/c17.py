# -*- coding: utf-8 -*-
"""C17 -- spike selection honours its cluster, chunk, subset and count constraints.

space x env mode: every (spike times, labels, chunk grid, kept-chunk count) configuration x
every call (count, cluster list, chunk restriction, subset); np.random.choice is an owned
choice point whose menu is every k-subset, and all schedules of draws are enumerated.
"""
import itertools
import math

import numpy as np

from .. import core
from ..util import describe

PROP = 'C17'

COUNTS = [None, 0, 1, 2, 10]
CLUSTER_LISTS = [[], [0], [1, 0], [0, 7], [0, 1, 0], [-1, 1]]     # -1: an unknown id may be negative     # [0, 1, 0]: an id named twice is one cluster


def imports():
    core.import_phylib('phylib.io.array', 'phylib.io.model')


class OwnedChoice(object):
    """Replacement for np.random.choice(a, size, replace=False) driven by the choice oracle."""

    def __init__(self, choices):
        self.choices = choices
        self.draws = []

    def __call__(self, a, size=None, replace=True, p=None):
        a = np.asarray(a)
        assert replace is False and p is None and size is not None
        combos = list(itertools.combinations(range(len(a)), int(size)))
        i = self.choices.choose(len(combos), 'choice(%d,%d)' % (len(a), size))
        self.draws.append((len(a), int(size)))
        return a[list(combos[i])[::-1]]     # an unsorted draw


def expected_chunks(bounds, kept):
    n = len(bounds) - 1
    s = max(1, int(math.ceil(n / float(kept))))
    idx = list(range(0, n, s))
    return idx, [(bounds[i], bounds[i + 1]) for i in idx]


def run_case(case, acc, order):
    from phylib.io.array import SpikeSelector
    times = case['times']
    n = len(times)
    bounds = case['bounds']
    only = case.get('only_op')
    tti = case.get('ttype_i', (order + case.get('seed', 0)) % 3)
    ttype = [np.int64, np.float64, np.uint64][tti]
    # the grid as given (integers), or a float grid whose bounds fall between the integer times
    shift = [0, -0.5, 0.5][(order // 3 + case.get('seed', 0)) % 3]
    if case.get('shift') is not None:
        shift = case['shift']
    if shift:
        bounds = [b + shift for b in bounds]
    opi = -1
    for labels in itertools.product((0, 1), repeat=n):
        t_arr = np.array(times, dtype=ttype)
        groups = {c: np.array([i for i in range(n) if labels[i] == c], dtype=np.int64) for c in (0, 1)}

        if case.get('lib_callback', order % 2 == 1):
            # the per-cluster callback a model would pass: the library's own cluster lookup
            from phylib.io.array import _spikes_in_clusters
            lab_arr = np.array(labels, dtype=np.int64)

            def spc(cl, lab_arr=lab_arr):
                return _spikes_in_clusters(lab_arr, [cl])
        else:
            def spc(cl, groups=groups):
                return groups.get(cl, np.array([], dtype=np.int64))
        for kept in case['kepts']:
            acc.state()
            try:
                sel = SpikeSelector(get_spikes_per_cluster=spc, spike_times=t_arr,
                                    chunk_bounds=list(bounds), n_chunks_kept=kept)
                ck = [float(x) if shift else int(x) for x in np.asarray(sel.chunks_kept).tolist()]
            except Exception as e:
                sel, ck = None, e
            idx, intervals = expected_chunks(bounds, kept)
            exp_ck = [b for iv in intervals for b in iv]
            stride_odd = (len(bounds) - 1) % max(1, int(math.ceil((len(bounds) - 1) / float(kept)))) != 0
            opi += 1
            if only is None or only == opi:
                acc.step(stride_odd, 'chunks_kept')
                if ck != exp_ck:
                    kind = type(ck).__name__ if isinstance(ck, BaseException) else (
                        'too-many' if not isinstance(ck, BaseException) and len(ck) // 2 > kept
                        else 'value')
                    sig = '%s/chunks_kept/%s' % (PROP, kind)
                    acc.violation(sig, core.make_record(
                        PROP, 'chunks_kept', sig, case=dict(case, only_op=opi, shift=shift, ttype_i=tti, lib_callback=bool(order % 2 == 1) if 'lib_callback' not in case else case['lib_callback']),
                        op={'bounds': bounds, 'kept': kept}, expected=exp_ck,
                        observed=describe(ck) if isinstance(ck, BaseException) else ck),
                        order * 100000 + opi)
            if sel is None:
                continue
            on_bound = any(t in bounds for t in times)
            for count in COUNTS:
                for clist in CLUSTER_LISTS:
                    if len(set(clist)) < len(clist) and count not in (None, 1):
                        continue        # the list with a repeated id: two count values suffice
                    for sub_chunks in (False, True):
                        even = [i for i in range(n) if i % 2 == 0]
                        # the subset is a set of ids: unsorted, possibly naming an id twice
                        third = [] if kept % 2 == 0 or not even else even[::-1] + even[:1]
                        for subset in (None, even, third):
                            opi += 1
                            if only is not None and only != opi:
                                continue
                            # eligible spikes per requested cluster, from the statement
                            elig = {}
                            for c in clist:
                                e = [i for i in range(n) if labels[i] == c]
                                if sub_chunks:
                                    e = [i for i in e if any(a <= times[i] < b for a, b in intervals)]
                                if subset is not None:
                                    e = [i for i in e if i in subset]
                                elig[c] = e
                            op = {'labels': list(labels), 'kept': kept, 'count': count,
                                  'clusters': clist, 'subset_chunks': sub_chunks, 'subset': subset}

                            def run(ch):
                                owned = OwnedChoice(ch)
                                orig = np.random.choice
                                np.random.choice = owned
                                try:
                                    cl_arg = [list(clist), np.array(clist, dtype=np.int64),
                                              tuple(clist)][opi % 3]     # the id list in any container
                                    skw = {}
                                    if sub_chunks or opi % 2:
                                        skw['subset_chunks'] = sub_chunks     # False is the default
                                    if subset is not None or opi % 2:
                                        skw['subset_spikes'] = None if subset is None else \
                                            np.array(subset, dtype=np.int64)
                                    r = sel(count, cl_arg, **skw)
                                except Exception as e:
                                    r = e
                                finally:
                                    np.random.choice = orig
                                return r, owned.draws

                            def on_exec(ch, res):
                                r, draws = res
                                nontrivial = bool(draws) or (sub_chunks and on_bound) or stride_odd
                                acc.step(nontrivial, 'select:draw' if draws else 'select:all')
                                acc.extra['schedules'] += 1
                                acc.extra['choice_points'] += len(ch.trace)
                                bad = None
                                if isinstance(r, BaseException):
                                    bad = type(r).__name__
                                else:
                                    out = [int(x) for x in np.asarray(r).tolist()]
                                    if any(b <= a for a, b in zip(out[:-1], out[1:])):
                                        bad = 'not-strictly-increasing'
                                    else:
                                        for c in set(clist):
                                            mine = [i for i in out if 0 <= i < n and labels[i] == c]
                                            e = elig.get(c, [])
                                            if not set(mine) <= set(e):
                                                bad = 'ineligible-spike' + (
                                                    ',chunk' if sub_chunks else '') + (
                                                    ',subset' if subset is not None else '')
                                                break
                                            want = len(e) if (count is None or count <= 0 or
                                                              len(e) <= count) else count
                                            if len(mine) != want:
                                                bad = 'count'
                                                break
                                        if bad is None:
                                            req = set(clist)
                                            if any((not 0 <= i < n) or labels[i] not in req for i in out):
                                                bad = 'foreign-spike'
                                if bad:
                                    sig = '%s/select/%s%s' % (PROP, bad, ',draw' if draws else '')
                                    acc.violation(sig, core.make_record(
                                        PROP, 'select', sig, case=dict(case, only_op=opi, shift=shift, ttype_i=tti, lib_callback=bool(order % 2 == 1) if 'lib_callback' not in case else case['lib_callback']),
                                        op=dict(op, schedule=ch.schedule),
                                        expected={'eligible_per_cluster': elig},
                                        observed=describe(r) if isinstance(r, BaseException)
                                        else [int(x) for x in np.asarray(r).tolist()]),
                                        order * 100000 + opi)

                            core.explore_env(run, on_exec)
    if order % 61 == 0:
        acc.sample({'times': times, 'bounds': bounds, 'kepts': case['kepts'],
                    'labels': 'all over {0,1}', 'calls': 'counts x cluster lists x chunks x subset'})


PAIR_CALLS = [(cnt, cl, ch, sb) for cnt in (None, 1) for cl in ([0], [1, 0], [0, 7], [1])
              for ch in (False, True) for sb in (None, 'even')]


def run_pairs(case, acc, order):
    """Histories of two calls on one selector: the second call must give what it gives on a fresh
    selector (a selector carries no state from one call to the next). Draws are scripted (first k)."""
    from phylib.io.array import SpikeSelector
    times, bounds, labels, kept = case['times'], case['bounds'], case['labels'], case['kept']
    n = len(times)
    groups = {c: np.array([i for i in range(n) if labels[i] == c], dtype=np.int64) for c in (0, 1)}

    def spc(cl):
        return groups.get(cl, np.array([], dtype=np.int64))

    def fresh():
        return SpikeSelector(get_spikes_per_cluster=spc, spike_times=np.array(times, dtype=np.int64),
                             chunk_bounds=list(bounds), n_chunks_kept=kept)

    def call(sel, c):
        cnt, cl, ch, sb = c
        subset = None if sb is None else np.array([i for i in range(n) if i % 2 == 0], dtype=np.int64)
        orig = np.random.choice
        np.random.choice = lambda a, size=None, replace=True, p=None: np.asarray(a)[:size]
        try:
            return [int(x) for x in np.asarray(sel(cnt, list(cl), subset_chunks=ch,
                                                   subset_spikes=subset)).tolist()]
        except Exception as e:
            return repr(e)
        finally:
            np.random.choice = orig
    acc.state()
    alone = {i: call(fresh(), c) for i, c in enumerate(PAIR_CALLS)}
    for i, c1 in enumerate(PAIR_CALLS):
        for j, c2 in enumerate(PAIR_CALLS):
            sel = fresh()
            call(sel, c1)
            got = call(sel, c2)
            acc.step(c1[1] != c2[1], 'pair')
            if got != alone[j]:
                sig = '%s/select-history/second-call-depends-on-first' % PROP
                acc.violation(sig, core.make_record(
                    PROP, 'select-history', sig, case=case,
                    trace=[{'count': c1[0], 'clusters': c1[1], 'subset_chunks': c1[2], 'subset': c1[3]},
                           {'count': c2[0], 'clusters': c2[1], 'subset_chunks': c2[2], 'subset': c2[3]}],
                    expected=alone[j], observed=got), order * 10000 + i * 100 + j)
    if order % 11 == 0:
        acc.sample({'call_pairs_on': case})


def self_test():
    assert expected_chunks([0, 2, 4, 5], 2) == ([0, 2], [(0, 2), (4, 5)])
    assert expected_chunks([0, 2, 4, 5], 5) == ([0, 1, 2], [(0, 2), (2, 4), (4, 5)])
    assert expected_chunks([0, 1, 2, 3, 4, 5], 3)[0] == [0, 2, 4]


def explore(ctx):
    self_test()
    G, L = (5, 5) if ctx.thorough else (4, 4)
    kepts = list(range(1, G + 1))
    ctx.bounds = {'grid': G, 'max_spikes': L, 'kept': kepts, 'counts': COUNTS,
                  'cluster_lists': CLUSTER_LISTS}
    ctx.rule = ('state = (spike times, labels, chunk grid, kept-chunk count) with a real SpikeSelector; '
                'transition = one selector call under one schedule of np.random.choice draws (every '
                'k-subset is an alternative), checked against the constraints of the statement; '
                'non-trivial = a draw happened, a spike lies exactly on a chunk bound with chunk '
                'restriction on, or the stride does not divide the chunk count')
    ctx.assumptions = ['np.random.choice is the only source of randomness (patched, every k-subset '
                       'enumerated, returned unsorted)']
    grids = []
    for k in range(2, G + 1):
        grids += [list(b) for b in itertools.combinations(range(G + 1), k)]
    cases = []
    for n in range(0, L + 1):
        for times in itertools.combinations_with_replacement(range(G + 1), n):
            for b in grids:
                cases.append({'times': list(times), 'bounds': b, 'kepts': kepts, 'seed': ctx.seed})
    if not ctx.thorough:
        # quick: all grids for <= 3 spikes, a seed-rotating third of the grids for 4 spikes
        cases = [c for i, c in enumerate(cases) if len(c['times']) <= 3 or (i + ctx.seed) % 5 == 0]
        ctx.notes['quick_slice'] = 'all configurations with <= 3 spikes; every fifth (by seed) with 4'
    ctx.run_cases(run_case, cases, sweep='selector')
    # call histories of length 2 on one selector
    pcases = []
    for times in ([0, 1, 2, 3], [0, 0, 2, 4], [1, 2, 2, 3, 4]):
        for labels in itertools.product((0, 1), repeat=len(times)):
            if len(set(labels)) < 2:
                continue
            for bounds, kept in (([0, 2, 4], 1), ([0, 1, 3, 5], 2), ([0, 5], 1)):
                pcases.append({'times': times, 'labels': list(labels), 'bounds': bounds, 'kept': kept})
    if not ctx.thorough:
        pcases = pcases[ctx.seed % 3::3]
    ctx.run_cases(run_pairs, pcases, sweep='call-pairs')
    from . import c17_model
    c17_model.explore(ctx)


def replay(record):
    imports()
    if 'labels' in (record.get('case') or {}) and 'kept' in record['case']:
        acc = core.Acc()
        run_pairs(record['case'], acc, 0)
        return [dict(v['record'], signature=s) for s, v in acc.violations.items()]
    if 'n_chunks' in (record.get('case') or {}):
        from . import c17_model
        return c17_model.replay(record)
    return core.replay_case(run_case, record)
