# -*- coding: utf-8 -*-
"""C09 -- amplitude, depth, duration and peak-channel summaries follow their definitions.

space mode: dense datasets over (unused template at none/first/middle/last) x (clusters equal
to templates / curated) x whitening x feature store x sample rate x unit factor; every summary
is recomputed from the generator's arrays with the direct formulas.
"""
import itertools

import numpy as np

from .. import core
from ..gen import dsgen
from ..util import describe

PROP = 'C09'


def imports():
    core.import_phylib('phylib.io.model')


def ptp(x, axis=0):
    return x.max(axis=axis) - x.min(axis=axis)


ASSIGN = {
    'none':   [0, 1, 2, 3, 1, 0, 3, 2],
    'first':  [1, 2, 3, 1, 3, 2, 2, 1],
    'middle': [0, 1, 3, 0, 3, 1, 1, 0],
    'last':   [0, 1, 2, 0, 2, 1, 1, 0],
}


def curate(st, how):
    st = list(st)
    if how == 'same':
        return 'same'
    mx = max(st)
    ids = sorted(set(st))
    if how == 'merge':
        a, b = ids[0], ids[1]
        return [mx + 1 if x in (a, b) else x for x in st]
    if how == 'split':
        c = ids[-1]
        out, seen = list(st), 0
        for i, x in enumerate(st):
            if x == c:
                out[i] = mx + 1 if seen < 1 else mx + 2
                seen += 1
        return out
    if how == 'reassign':
        out = list(st)
        out[0] = ids[-1]
        return out
    raise ValueError(how)


def close(a, b, rtol=1e-5, atol=1e-7):
    a, b = np.asarray(a, dtype=np.float64), np.asarray(b, dtype=np.float64)
    return a.shape == b.shape and bool(np.allclose(a, b, rtol=rtol, atol=atol, equal_nan=True))


def run_case(case, acc, order):
    from phylib.io.model import load_model
    spec = case['spec']
    bad = []
    with core.Scratch() as d:
        tr = dsgen.make_dataset(d / 'ds', spec)
        m0 = load_model(tr['params_path'])
        m0.close()
        m = load_model(tr['params_path'])     # second open: reads what the first one cached on disk
        try:
            acc.state()
            s = tr['spec']
            ns, nt, nc = s['n_spikes'], s['n_templates'], s['n_channels']
            st = tr['spike_templates'].astype(np.int64)
            sc = tr['spike_clusters'].astype(np.int64)
            amps = tr['amplitudes']
            T = tr['templates_dense'].astype(np.float64)
            wm = tr['wm'] if tr['wm'] is not None else np.eye(nc)
            wmi = np.linalg.inv(wm)
            sr = float(s['sample_rate'])
            Cw = np.asarray(m.sparse_clusters.data).astype(np.float64)   # cluster waveforms (see C08)
            curated = not np.array_equal(st, sc)
            if curated:
                # the summaries below are those of the cluster waveforms: check these against C08's
                # definition first (clusters with a unique dominant template; single-origin clusters)
                from . import c08
                pos_ = tr['channel_positions']
                sh_ = tr['channel_shanks'] if tr['channel_shanks'] is not None else np.zeros(nc)
                for c, (D, expw) in c08.reference_cluster_waveforms(
                        T, st, sc, pos_, sh_, m.n_closest_channels).items():
                    acc.step(True, 'cluster_waveforms')
                    # (computed in double precision from the stored template values: no slack needed)
                    if c < Cw.shape[0] and not np.allclose(Cw[c][:, D], expw, rtol=1e-11, atol=1e-12):
                        bad.append(('cluster_waveforms', 'definition',
                                    {'cluster': int(c), 'channels': D, 'mean': describe(expw)},
                                    describe(Cw[c][:, D])))
                        break
                for c in sorted(set(sc.tolist())):
                    o = sorted(set(st[sc == c].tolist()))
                    if len(o) == 1 and c < Cw.shape[0] and not np.array_equal(Cw[c], T[o[0]]):
                        bad.append(('cluster_waveforms', 'single-origin', describe(T[o[0]]), describe(Cw[c])))
                        break
            unused_top_t = max(st) + 1 < nt
            unused_top_c = max(sc) + 1 < Cw.shape[0]

            def step(name, nontrivial=True):
                acc.step(nontrivial, name)

            # ---- get_amplitudes_true
            for use, W, ids in (('templates', T, st), ('clusters', Cw, sc)):
                nw = W.shape[0]
                Wu = np.stack([W[k] @ wmi for k in range(nw)])
                au = ptp(Wu, axis=1).max(axis=1)
                for f in case['factors']:
                    exp_spike = amps * au[ids] * f
                    exp_mean = np.full(nw, np.nan)
                    for k in range(nw):
                        sel = ids == k
                        if sel.any():
                            exp_mean[k] = exp_spike[sel].mean()
                    try:
                        # arguments left to their defaults where the default is the value wanted
                        # (left out in one half of the cases, passed explicitly in the other)
                        akw = {} if (use == 'templates' and order % 2 == 0) else {'use': use}
                        got = m.get_amplitudes_true(**akw) if (f == 1 and order % 2 == 0) else \
                            m.get_amplitudes_true(f, **akw)
                    except Exception as e:
                        got = e
                    empties = bool(np.isnan(exp_mean).any())
                    step('amplitudes_true:%s' % use, empties or f != 1 or curated)
                    if isinstance(got, BaseException):
                        where = 'highest-id-empty' if (use == 'templates' and unused_top_t) or (
                            use == 'clusters' and unused_top_c) else 'other'
                        bad.append(('get_amplitudes_true', '%s/%s/%s' % (use, where, type(got).__name__),
                                    'three arrays', repr(got)))
                        continue
                    g_spike, g_wav, g_mean = got
                    if not close(g_spike, exp_spike):
                        bad.append(('get_amplitudes_true', use + '/spike-amplitudes',
                                    describe(exp_spike), describe(np.asarray(g_spike))))
                    if not close(g_mean, exp_mean):
                        bad.append(('get_amplitudes_true', use + '/mean-amplitudes' + (
                            ',with-empty-ids' if empties else ''), describe(exp_mean),
                            describe(np.asarray(g_mean))))
                    g_wav = np.asarray(g_wav, dtype=np.float64)
                    if g_wav.shape != Wu.shape:
                        bad.append(('get_amplitudes_true', use + '/rescaled-shape', list(Wu.shape),
                                    list(g_wav.shape)))
                    else:
                        for k in range(nw):
                            if not np.isnan(exp_mean[k]):
                                pk = ptp(g_wav[k]).max()
                                if not np.isclose(pk, exp_mean[k], rtol=1e-5):
                                    bad.append(('get_amplitudes_true', use + '/rescaled-peak',
                                                float(exp_mean[k]), float(pk)))
                                    break
                                scale = exp_mean[k] / (au[k] * f) * f if au[k] else 0
                                if not close(g_wav[k], Wu[k] * exp_mean[k] / au[k], rtol=1e-5,
                                             atol=1e-6):
                                    bad.append(('get_amplitudes_true', use + '/rescaled-waveform',
                                                'unwhitened waveform x mean/au', 'differs'))
                                    break
            # ---- mean stored amplitude per present id
            for name, ids in (('templates_amplitudes', st), ('clusters_amplitudes', sc)):
                exp = np.array([amps[ids == k].mean() for k in sorted(set(ids.tolist()))])
                try:
                    got = np.asarray(getattr(m, name))
                except Exception as e:
                    got = e
                step(name, len(set(ids.tolist())) < ids.max() + 1)
                if isinstance(got, BaseException) or not close(got, exp):
                    bad.append((name, 'value' if not isinstance(got, BaseException)
                                else type(got).__name__, describe(exp), describe(got)))
            # ---- peak channels and durations
            for name, dname, W in (('templates_channels', 'templates_waveforms_durations', T),
                                   ('clusters_channels', 'clusters_waveforms_durations', Cw)):
                a = ptp(W, axis=1)
                exp_ch = a.argmax(axis=1)
                exp_dur = np.array([(W[k][:, exp_ch[k]].argmax() - W[k][:, exp_ch[k]].argmin())
                                    for k in range(W.shape[0])], dtype=np.float64) / sr * 1e3
                try:
                    got_ch = np.asarray(getattr(m, name))
                    got_dur = np.asarray(getattr(m, dname))
                except Exception as e:
                    got_ch = got_dur = e
                step(name)
                if isinstance(got_ch, BaseException):
                    bad.append((name, type(got_ch).__name__, 'arrays', repr(got_ch)))
                    continue
                # ties in the peak are left out (all-zero waveforms of empty ids)
                uniq = np.array([np.sum(a[k] == a[k].max()) == 1 for k in range(W.shape[0])])
                if got_ch.shape != exp_ch.shape or not np.array_equal(got_ch[uniq], exp_ch[uniq]):
                    bad.append((name, 'value', describe(exp_ch), describe(got_ch)))
                if got_dur.shape != exp_dur.shape or not close(got_dur[uniq], exp_dur[uniq]):
                    bad.append((dname, 'value', describe(exp_dur), describe(got_dur)))
            # ---- depths
            pcf = tr['pc_features']
            try:
                got = m.get_depths()
            except Exception as e:
                got = e
            feat = s['features']
            step('get_depths:%s' % feat, feat != 'absent')
            if pcf is None or pcf.shape[0] != ns:
                if got is not None:
                    bad.append(('get_depths', 'not-None-without-full-features/%s' % feat, None,
                                describe(got) if not isinstance(got, BaseException) else repr(got)))
            else:
                nloc = pcf.shape[2]
                ind = tr['pc_feature_ind']
                y = tr['channel_positions'][:, 1]
                exp = np.full(ns, np.nan)
                for i in range(ns):
                    cols = ind[st[i]] if ind is not None else np.arange(nloc)
                    w = np.maximum(pcf[i, 0, :].astype(np.float64), 0) ** 2
                    if w.sum() > 0:
                        exp[i] = (y[cols.astype(np.int64)] * w).sum() / w.sum()
                if isinstance(got, BaseException):
                    bad.append(('get_depths', '%s/%s' % (feat, type(got).__name__), describe(exp),
                                repr(got)))
                elif got is None or not close(got, exp, rtol=1e-5, atol=1e-5):
                    bad.append(('get_depths', '%s/value' % feat, describe(exp),
                                describe(np.asarray(got)) if got is not None else None))
        except Exception:
            import traceback
            bad.append(('oracle', 'HARNESS', '', traceback.format_exc()[-700:]))
        finally:
            m.close()
    for attr, kind, exp, got in bad:
        sig = ('HARNESS/c09' if kind == 'HARNESS' else '%s/%s/%s' % (PROP, attr, kind))
        acc.violation(sig, core.make_record(PROP, attr, sig, case=case, expected=exp, observed=got),
                      order)
    if order % 29 == 0:
        acc.sample({k: spec.get(k) for k in ('spike_templates', 'spike_clusters', 'whitening', 'features',
                                             'sample_rate')})


def explore(ctx):
    cases = []
    i = 0
    for unused, st in ASSIGN.items():
        for how in ('same', 'merge', 'split', 'reassign'):
            for wh in ('identity', 'mixing', 'absent'):
                for feat in ('absent', 'noind', 'sparse', 'sparse_rows'):
                    for sr in (100.0, 30000.0):
                        i += 1
                        spec = {'n_spikes': 8, 'n_templates': 4, 'n_channels': 5,
                                'geometry': ['grid', 'rect'][(i // 8) % 2],
                                'spike_templates': st, 'spike_clusters': curate(st, how),
                                'whitening': wh, 'features': feat, 'tfeatures': 'absent', 'raw': False,
                                'sample_rate': sr, 'nsw': 5, 'fill': ctx.seed + (i % 3),
                                'nonpositive_spikes': [3, 7] if i % 2 else [0],
                                # feature tables as wide as / narrower than the number of components (2)
                                'n_loc': [None, 2, None, 1][(i // 3) % 4],
                                # raw channels dropped / permuted: peak channels are template columns, not
                                # raw-file channel numbers; KiloSort2's templates_ind.npy lying around
                                'channel_map': ['identity', 'sub', 'perm'][(i // 5) % 3],
                                'ks2_templates_ind': (i // 7) % 2 == 1,
                                'template_dtype': 'float64' if (i // 2) % 2 else 'float32',
                                # a channel that is not the largest carries a constant offset
                                'dc_offset': [[0, 1, 40.0], [2, 0, 40.0], [3, 4, -40.0]] if (i // 4) % 2 else None}
                        cases.append({'spec': spec, 'factors': [1, 2.5], 'unused': unused, 'how': how})
    # merged clusters whose templates differ in their channels: (a) a 14-channel probe, the dominant
    # template is not the first contributor, peaks far apart; (b) templates that are exactly flat on
    # some channels where the other contributor has signal
    st_w = [0, 1, 2, 3, 3, 0, 3, 2]
    prof = [[float(20 - abs(c - pk)) for c in range(14)] for pk in (6, 0, 12, 13)]
    for wh in ('identity', 'mixing'):
        cases.append({'spec': {'n_spikes': 8, 'n_templates': 4, 'n_channels': 14, 'geometry': 'col14',
                               'spike_templates': st_w, 'spike_clusters': [4 if x in (2, 3) else x for x in st_w],
                               'profile': prof, 'whitening': wh, 'features': 'sparse', 'tfeatures': 'absent',
                               'raw': False, 'sample_rate': 30000.0, 'nsw': 5, 'fill': ctx.seed},
                      'factors': [1, 2.5], 'unused': 'none', 'how': 'merge-wide'})
        cases.append({'spec': {'n_spikes': 8, 'n_templates': 3, 'n_channels': 4, 'geometry': 'line',
                               'spike_templates': [0, 1, 2, 0, 0, 1, 0, 2],
                               'spike_clusters': [3, 3, 2, 3, 3, 3, 3, 2],
                               'profile': [[3, 2, 0, 0], [0, 0, 2, 3], [1, 0, 3, 4]], 'whitening': wh,
                               'features': 'sparse', 'tfeatures': 'absent', 'raw': False,
                               'sample_rate': 30000.0, 'nsw': 5, 'fill': ctx.seed},
                      'factors': [1], 'unused': 'none', 'how': 'merge-flat-channels'})
    # 300 templates with 16-bit ids, two of the highest merged, one in the middle split: products of a
    # template id and a cluster count do not fit the id type
    nt_m = 300
    st_m = list(range(nt_m)) + [299, 298, 250, 250]
    sc_m = [300 if x in (298, 299) else x for x in st_m]
    sc_m[-1] = 301
    cases.append({'spec': {'n_spikes': len(st_m), 'n_templates': nt_m, 'n_channels': 4, 'geometry': 'line',
                           'spike_templates': st_m, 'spike_clusters': sc_m, 'id_dtype': 'uint16',
                           'whitening': 'mixing', 'features': 'absent', 'tfeatures': 'absent', 'raw': False,
                           'sample_rate': 30000.0, 'nsw': 5, 'fill': ctx.seed},
                  'factors': [1], 'unused': 'none', 'how': 'many-templates-16-bit-ids'})
    # get_depths works in batches of 50 000 spikes: two datasets just beyond one and two batches
    for ns_big in ((50007, 100003) if ctx.thorough else (50007,)):
        spec = {'n_spikes': ns_big, 'n_templates': 4, 'n_channels': 5, 'geometry': 'grid',
                'whitening': 'mixing', 'features': 'sparse', 'tfeatures': 'absent', 'raw': False,
                'sample_rate': 30000.0, 'nsw': 5, 'fill': ctx.seed,
                'nonpositive_spikes': [3, 49999, 50000, ns_big - 1]}
        cases.append({'spec': spec, 'factors': [2.5], 'unused': 'none', 'how': 'same'})
    ctx.run_cases(run_case, cases, sweep='summaries')
    ctx.bounds = {'unused_template_position': list(ASSIGN), 'curation': ['same', 'merge', 'split',
                                                                       'reassign'],
                  'whitening': ['identity', 'mixing', 'absent'],
                  'features': ['absent', 'noind', 'sparse', 'sparse_rows'], 'sample_rate': [100, 30000],
                  'factors': [1, 2.5]}
    ctx.rule = ('state = one loaded dense dataset; transition = one summary method/property compared '
                'with the direct formula on the generator\'s arrays; non-trivial = an id without '
                'spikes, a unit factor != 1, curated clusters, or a feature store present')
    ctx.assumptions = ['cluster waveforms are taken from the model (validated by C08); everything '
                       'else from the generator', 'peak channel unique (all-zero waveforms of empty ids '
                       'excluded from peak/duration comparison)']


def replay(record):
    imports()
    return core.replay_case(run_case, record)
