#!/bin/bash
# Offline setup: nothing to build; byte-compile the explorer, check the TLA+ specs parse.
cd "$(dirname "$0")" || exit 1
/venv/bin/python -m compileall -q mc >/dev/null || exit 1
/venv/bin/python -c "import numpy, scipy, mtscomp, responses, requests, tqdm" || exit 1
for spec in tla/*.tla; do
  [ -e "$spec" ] || continue
  (cd tla && tla-sany "$(basename "$spec")" >/dev/null 2>&1) || { echo "SANY failed on $spec"; exit 1; }
done
echo setup ok
